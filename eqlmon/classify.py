"""Attribution of a failing case to a listed known finding (DESIGN 1.5).

A failure is reported as KNOWN-FINDING only if the entry's syntactic precondition AND its run-time attribution test
both hold.  Everything else stays a VIOLATION.  Findings are keyed by mechanism, never by seed / hash / values.

K05  rows missing only while result caching is enabled, caused by the cache index hiding a stored entry (K20):
       precondition : the failure is 'rows missing' (no extra rows, no exception, no wrong multiplicity) of a plain condition
                      query over >= 3 variables (every one of the 68 occurrences collected on the unchanged tree in three
                      thorough sweeps has 3 or 4 variables and none is a flatten / for_all-only / rule / nested query; a
                      seeded "negative caching" change produces the same signature in 2-variable and flatten queries)
       attribution  : the same case rebuilt fresh with caching DISABLED equals the oracle, AND the caching-enabled run
                      shows >= 1 retrieve call whose answer equals the K20 deviation model (and none that equals neither
                      the specification nor the deviation model), AND with caching enabled and IndexedCache.retrieve
                      replaced by the specification walk of the same stored entries (monitors.FORCE_SPEC_RETRIEVE, which
                      removes exactly the K20 deviation and nothing else) no row is missing any more
K02  de-duplication drops rows when a variable is mentioned by the condition but not selected:
       precondition : some variable is mentioned but not selected, the failure is 'rows missing'
       attribution  : with caching disabled the case still fails, and with caching disabled and the de-duplication
                      forced off (M-dedup) the row SET equals the oracle
"""
from __future__ import annotations

from collections import Counter

from . import monitors as M


def _only_missing(kind):
    return kind == "SET:missing"


MIN_VARS_K05 = 3


def attribute(failure, run, expected_rows, *, mentioned_not_selected=False, compare=None, nvars=None):
    """run(caching: bool) -> rows   (must rebuild the query from scratch on every call)
    compare(got, exp) -> None | kind"""
    from .shard import reset_eql_state
    kind = failure.get("kind", "")
    if not _only_missing(kind):
        return None

    def fresh(caching, dedup_off=False, spec_retrieve=False):
        reset_eql_state()
        M.begin_case()
        M.FORCE_DEDUP_OFF = dedup_off
        M.FORCE_SPEC_RETRIEVE = spec_retrieve
        try:
            got = run(caching)
            return got, Counter(M.RETRIEVE_EVENTS)
        finally:
            M.FORCE_DEDUP_OFF = False
            M.FORCE_SPEC_RETRIEVE = False

    try:
        got_on, ev_on = fresh(True)
        got_off, _ = fresh(False)
    except Exception:
        return None
    on_bad = compare(got_on, expected_rows)
    off_bad = compare(got_off, expected_rows)
    if on_bad is None:
        return None  # not reproducible from a fresh build: not what the entry describes
    if off_bad is None:
        if nvars is None or nvars < MIN_VARS_K05:
            return None     # K05's precondition: a plain condition query over >= 3 variables
        if _only_missing(on_bad) and ev_on["known_deviation"] >= 1 and ev_on["other_deviation"] == 0:
            try:
                got_spec, _ = fresh(True, spec_retrieve=True)
            except Exception:
                return None
            if not (set(expected_rows) - set(got_spec)):
                return "K05"
        return None
    # fails with caching off as well
    if mentioned_not_selected and _only_missing(off_bad):
        try:
            got_nd, _ = fresh(False, dedup_off=True)
        except Exception:
            return None
        if set(got_nd) == set(expected_rows):
            return "K02"
    return None
