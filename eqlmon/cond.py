"""Condition / value ASTs (JSON-able nested lists), their reference meaning in plain Python (the oracle), the
translation to real EQL expressions, seeded random generators, exhaustive enumerators and meaning-preserving rewriters.

value  ::= ["lit", scalar] | ["tup", [scalar...]] | ["v", var_index, [step...]]
step   ::= ["a", name] | ["i", key] | ["c", method, [args...]] | ["ck", method, {kw: value}]
cond   ::= ["cmp", op, value, value]
         | ["in", item_value, container_value]         built as in_(item, container)
         | ["has", container_value, item_value]        built as contains(container, item)
         | ["truth", value]                            a value standing in condition position
         | ["fpred", name, [value...]] | ["cpred", name, [value...]] | ["hastype", var_index, class_name]
         | ["and", cond, cond, ...] | ["&", cond, cond]   (two spellings of conjunction)
         | ["or", cond, cond, ...]  | ["|", cond, cond]
         | ["not", cond] | ["~", cond]
"""
from __future__ import annotations

import operator

from . import data as D

OPS = {"==": operator.eq, "!=": operator.ne, "<": operator.lt, "<=": operator.le, ">": operator.gt, ">=": operator.ge}
MIRROR = {"<": ">", ">": "<", "<=": ">=", ">=": "<=", "==": "==", "!=": "!="}
INVERSE = {"<": ">=", ">": "<=", "<=": ">", ">=": "<", "==": "!=", "!=": "=="}


class Unbound(Exception):
    pass


# ------------------------------------------------------------------------------------------------ oracle
def ev(v, asg):
    t = v[0]
    if t == "lit":
        return v[1]
    if t == "tup":
        return tuple(v[1])
    if t == "big":           # a LONG container (66+ elements) of values that are equal to, but not the same objects as, x.k1000
        return tuple(n * 1000 + 7 for n in range(v[1], v[2]))
    if t == "sub1":          # attribute of THE one solution of a nested an(entity(y, y.ix == i)); the value was read off the world
        return v[4]
    o = asg[v[1]]
    if o is None:
        raise Unbound()
    for st in v[2]:
        k = st[0]
        if k == "a":
            o = getattr(o, st[1])
        elif k == "i":
            o = o[st[1]]
        elif k == "ck":
            o = getattr(o, st[1])(**st[2])
        else:
            o = getattr(o, st[1])(*st[2])
    return o


def holds(c, asg) -> bool:
    t = c[0]
    if t == "cmp":
        return bool(OPS[c[1]](ev(c[2], asg), ev(c[3], asg)))
    if t == "in":
        return ev(c[1], asg) in ev(c[2], asg)
    if t == "has":
        return ev(c[2], asg) in ev(c[1], asg)
    if t == "truth":
        return bool(ev(c[1], asg))
    if t in ("fpred", "cpred"):
        return bool(D.PRED_REF[c[1]](*[ev(a, asg) for a in c[2]]))
    if t == "hastype":
        o = asg[c[1]]
        if o is None:
            raise Unbound()
        return isinstance(o, D.CLASSES[c[2]])
    if t == "const":
        return bool(c[1])
    if t == "anp":           # x.p == an(entity(y, y.a > k)): the operand ranges over the sub-query's solutions
        o = asg[c[1]]
        return o.p is not None and o.p.a > c[2]
    if t in ("and", "&"):
        return all(holds(s, asg) for s in c[1:])
    if t in ("or", "|"):
        return any(holds(s, asg) for s in c[1:])
    if t in ("not", "~"):
        return not holds(c[1], asg)
    raise ValueError(f"unknown condition {c!r}")


def mentioned(c, acc=None):
    acc = set() if acc is None else acc
    t = c[0]
    if t in ("cmp",):
        for v in c[2:]:
            if v[0] == "v":
                acc.add(v[1])
    elif t in ("in", "has"):
        for v in c[1:]:
            if v[0] == "v":
                acc.add(v[1])
    elif t == "truth":
        if c[1][0] == "v":
            acc.add(c[1][1])
    elif t in ("fpred", "cpred"):
        for v in c[2]:
            if v[0] == "v":
                acc.add(v[1])
    elif t == "hastype":
        acc.add(c[1])
    elif t == "const":
        pass
    elif t == "anp":
        acc.add(c[1])
    else:
        for s in c[1:]:
            mentioned(s, acc)
    return acc


def is_leaf(c):
    return c[0] not in ("and", "&", "or", "|", "not", "~")


def size(c):
    """number of connective nodes"""
    if is_leaf(c):
        return 0
    return 1 + sum(size(s) for s in c[1:])


def depth(c):
    if is_leaf(c):
        return 0
    return 1 + max(depth(s) for s in c[1:])


def shape_tags(c, acc=None, neg=0):
    """operator / leaf kinds that occur, with the parity of negations above (for the evidence classes)"""
    acc = set() if acc is None else acc
    t = c[0]
    if is_leaf(c):
        acc.add(("cmp" + c[1]) if t == "cmp" else t)
        if neg:
            acc.add("neg:" + (("cmp" + c[1]) if t == "cmp" else t))
        if neg >= 2:
            acc.add("neg>=2")
    elif t in ("not", "~"):
        acc.add(t)
        shape_tags(c[1], acc, neg + 1)
    else:
        acc.add(t)
        for s in c[1:]:
            shape_tags(s, acc, neg)
    return acc


# ------------------------------------------------------------------------------------------------ builder
CUR_WORLD = None      # set by multi.build: the built world the current query ranges over (for "sub1" operands)


def with_single_solution_subquery(rng, cond, world, flavours=("an",)):
    """Replace some numeric literal operands of comparisons by `an(entity(y, y.ix == i)).a`: a nested query with exactly
    one solution, so the condition stays an ordinary condition over the outer variables (returns the number replaced)."""
    n = 0

    def go(c):
        nonlocal n
        if c[0] == "cmp":
            for i in (2, 3):
                if c[i][0] == "lit" and type(c[i][1]) is int and rng.random() < 0.6:
                    kind = rng.choice([k for k in "PQ" if world.get(k)] or [None])
                    if kind is None:
                        continue
                    o = rng.choice(world[kind])
                    attr = rng.choice(["a", "b"])
                    val = getattr(o, attr)
                    if type(val) is int:
                        c[i] = ["sub1", kind, o.ix, attr, val, rng.choice(flavours)]
                        n += 1
        elif c[0] in ("and", "&", "or", "|", "not", "~"):
            for s in c[1:]:
                go(s)
    go(cond)
    return n


def bval(v, xs):
    t = v[0]
    if t == "lit":
        return v[1]
    if t == "tup":
        return tuple(v[1])
    if t == "big":
        return tuple(n * 1000 + 7 for n in range(v[1], v[2]))
    if t == "sub1":
        from entity_query_language import an, entity, let
        pool = CUR_WORLD[v[1]]
        y = let({"P": D.P, "Q": D.Q}[v[1]], pool)
        flavour = v[5] if len(v) > 5 else "an"
        if flavour == "the_pred":       # the(...) whose condition is a Predicate subclass that calls a function predicate
            from entity_query_language import the
            sub = the(entity(y, D.CIx(y, v[2]) if v[2] else D.CIx(y)))
        elif flavour == "the":
            from entity_query_language import the
            sub = the(entity(y, y.ix == v[2]))
        else:
            sub = an(entity(y, y.ix == v[2]))
        return getattr(sub, v[3])
    o = xs[v[1]]
    for st in v[2]:
        k = st[0]
        if k == "a":
            o = getattr(o, st[1])
        elif k == "i":
            o = o[st[1]]
        elif k == "ck":
            o = getattr(o, st[1])(**st[2])
        else:
            o = getattr(o, st[1])(*st[2])
    return o


def build(c, xs, neg=0, register=True):
    """AST -> EQL expression.  Must be called inside symbolic_mode.  Leaves are registered with the M-leaf monitor
    together with the number of negations above them."""
    from entity_query_language import and_, or_, not_, in_, contains, HasType
    t = c[0]
    if t == "and":
        return and_(*[build(s, xs, neg, register) for s in c[1:]])
    if t == "&":
        return build(c[1], xs, neg, register) & build(c[2], xs, neg, register)
    if t == "or":
        return or_(*[build(s, xs, neg, register) for s in c[1:]])
    if t == "|":
        return build(c[1], xs, neg, register) | build(c[2], xs, neg, register)
    if t == "not":
        return not_(build(c[1], xs, neg + 1, register))
    if t == "~":
        return ~build(c[1], xs, neg + 1, register)
    if t == "const":
        return bool(c[1])       # a plain True / False among the operands of a conjunction
    if t == "anp":
        # a nested an() sub-query (over the P objects the Q variable's domain refers to) as a comparison operand
        from entity_query_language import an, entity, let
        dom = VAR_DOMAIN.get(id(xs[c[1]]))
        if dom is None:
            node = xs[c[1]].p.a > c[2]
        else:
            ys = list({id(o.p): o.p for o in dom if getattr(o, "p", None) is not None}.values())
            y = let(D.P, ys)
            node = xs[c[1]].p == an(entity(y, y.a > c[2]))
        if register:
            from . import monitors
            monitors.register_leaf(node, c, neg % 2, list(xs), _holds_for_monitor)
        return node
    if t == "cmp":
        node = OPS[c[1]](bval(c[2], xs), bval(c[3], xs))
    elif t == "in":
        node = in_(bval(c[1], xs), bval(c[2], xs))
    elif t == "has":
        node = contains(bval(c[1], xs), bval(c[2], xs))
    elif t == "truth":
        node = bval(c[1], xs)
    elif t == "fpred":
        node = D.FPREDS[c[1]](*[bval(a, xs) for a in c[2]])
    elif t == "cpred":
        node = D.CPREDS[c[1]](*[bval(a, xs) for a in c[2]])
    elif t == "hastype":
        node = HasType(xs[c[1]], D.CLASSES[c[2]])
    else:
        raise ValueError(f"unknown condition {c!r}")
    if register:
        from . import monitors
        monitors.register_leaf(node, c, neg % 2, list(xs), _holds_for_monitor)
    return node


def _holds_for_monitor(leaf, asg):
    from . import monitors
    try:
        return holds(leaf, asg)
    except Unbound:
        raise monitors._Unbound()


# ------------------------------------------------------------------------------------------------ random generation
VAR_DOMAIN = {}      # id(variable) -> its domain list, recorded by harness.declare (for leaves that build sub-queries)

DEFAULT_OPTS = dict(neg=True, preds=True, member=True, calls=True, index=True, spell=True, objcmp=True, strings=True,
                    lit_lo=0, lit_hi=4, p_not=0.18, p_leaf=0.25, nary=True, falsy=False)


def _num_paths(kind):
    if kind in ("P", "E"):
        return [[["a", "a"]], [["a", "b"]], [["a", "d"], ["i", "k"]], [["c", "inc", []]], [["c", "getb", []]],
                [["a", "t"], ["i", 0]], [["c", "pt", []], ["a", "x"]], [["a", "u"]]]
    return [[["a", "a"]], [["a", "b"]], [["a", "p"], ["a", "a"]], [["a", "p"], ["a", "b"]], [["c", "inc", []]],
            [["a", "p"], ["a", "d"], ["i", "k"]], [["c", "pt", []], ["a", "x"]], [["a", "u"]]]


def gen_num(rng, kinds, o, allow_lit=True):
    if allow_lit and rng.random() < 0.3:
        return ["lit", rng.randint(o["lit_lo"], o["lit_hi"])]
    vi = rng.randrange(len(kinds))
    paths = _num_paths(kinds[vi])
    if not o["calls"]:
        paths = [p for p in paths if not any(s[0] == "c" for s in p)]
    if not o["index"]:
        paths = [p for p in paths if not any(s[0] == "i" for s in p)]
    if o.get("falsy"):      # falsy worlds contain empty tuples: x.t[0] would raise in plain Python as well
        paths = [p for p in paths if p != [["a", "t"], ["i", 0]]]
    return ["v", vi, rng.choice(paths)]


def gen_obj(rng, kinds):
    vi = rng.randrange(len(kinds))
    return ["v", vi, [] if kinds[vi] in ("P", "E") else [["a", "p"]]]


def _p_path(kind):
    return [] if kind in ("P", "E") else [["a", "p"]]


def gen_falsy_leaf(rng, kinds):
    """leaves that put falsy values in VALUE position (C19) and falsy values in CONDITION position"""
    vi = rng.randrange(len(kinds))
    pp = _p_path(kinds[vi])
    flag = ["v", vi, pp + [["a", "flag"]]]
    k = rng.random()
    if k < 0.25:
        return ["cmp", rng.choice(["==", "!="]), flag, ["lit", rng.choice([0, None, "", False, 1, "z"])]]
    if k < 0.4:
        return ["in", flag, ["tup", rng.choice([[0, None], ["", 1], [None, "z"], [False]])]]
    if k < 0.55:
        return ["cmp", rng.choice(["==", "!="]), ["v", vi, pp + [["a", "s"]]], ["lit", rng.choice(["", "x"])]]
    if k < 0.65:
        return ["cmp", rng.choice(["==", "!="]), ["v", vi, pp + [["a", "t"]]], ["tup", []]]
    if k < 0.8:
        return ["truth", rng.choice([flag, ["v", vi, pp + [["a", "t"]]], ["v", vi, pp + [["a", "s"]]], ["v", vi, [["a", "a"]]]])]
    if k < 0.84:
        return ["cmp", rng.choice(list(OPS)), ["v", vi, [["a", rng.choice("ab")]]], ["lit", 0]]
    if k < 0.88:
        # a falsy VALUE as the argument of a predicate
        return ["fpred", "f_vge", [["v", vi, [["a", rng.choice("ab")]]], ["lit", rng.choice([0, 0, 1])]]]
    if k < 0.95:
        # a dict entry that is present and holds None / a falsy value
        dm = ["v", vi, pp + [["a", "d"], ["i", "m"]]]
        if rng.random() < 0.7:
            return ["cmp", rng.choice(["==", "!="]), dm, ["lit", rng.choice([None, None, 0, "", "z"])]]
        return ["in", dm, ["tup", rng.choice([[None, "z"], [0, ""], [None], ["z", 1]])]]
    return ["cmp", "==", ["v", vi, pp + [["a", "d"], ["i", "k"]]], ["lit", 0]]


def gen_leaf(rng, kinds, o):
    if o.get("falsy") and rng.random() < 0.45:
        return gen_falsy_leaf(rng, kinds)
    k = rng.random()
    if k < 0.45:
        l, r = gen_num(rng, kinds, o), gen_num(rng, kinds, o)
        if l[0] == "lit" and r[0] == "lit":
            l = gen_num(rng, kinds, o, allow_lit=False)
        return ["cmp", rng.choice(list(OPS)), l, r]
    if k < 0.55 and o["objcmp"]:
        qs_ = [i for i, kd in enumerate(kinds) if kd == "Q"]
        # (off by default: a sub-query operand brings a variable of its own, under or_/not_ and for multiplicities that is not
        #  the plain condition vocabulary of C01-C03; C15 and eqlmon/ix.py own nested queries)
        if qs_ and o.get("subq", False) and rng.random() < 0.25:
            return ["anp", rng.choice(qs_), rng.randint(0, 3)]
        return ["cmp", rng.choice(["==", "!="]), gen_obj(rng, kinds), gen_obj(rng, kinds)]
    if k < 0.70 and o["member"]:
        vi = rng.randrange(len(kinds))
        pp = _p_path(kinds[vi])
        kk = rng.random()
        if kk < 0.12 and o.get("long_containers", True):
            # membership in a long container whose elements are equal to the candidate without being the same objects
            t_ = rng.randint(1, 4)
            lo, hi = (t_, t_ + rng.randint(66, 80)) if rng.random() < 0.5 else (t_ - rng.randint(66, 80), t_)
            item, cont = ["v", vi, pp + [["a", "k1000"]]], ["big", lo, hi]
        elif kk < 0.55:
            # (a third of them in one of the two LONG collections of the owner: 22 / 24 numbers)
            item, cont = gen_num(rng, kinds, o), ["v", vi, pp + [["a", rng.choice(["t", "t", "t", "t", "t20", "u20"]) if o.get("long_containers", True) else "t"]]]
        elif kk < 0.75:
            item, cont = gen_num(rng, kinds, o, allow_lit=False), ["tup", sorted(rng.sample([0, 1, 2, 3, 4], rng.randint(1, 3)))]
        elif o["strings"]:
            item, cont = ["lit", rng.choice(["x", "y", "z", "xy"])], ["v", vi, pp + [["a", "s"]]]
        else:
            item, cont = gen_num(rng, kinds, o), ["v", vi, pp + [["a", "t"]]]
        return ["in", item, cont] if rng.random() < 0.5 else ["has", cont, item]
    if k < 0.82 and o["calls"]:
        vi = rng.randrange(len(kinds))
        pp = _p_path(kinds[vi])
        kk = rng.random()
        if kk < 0.25:
            return ["truth", ["v", vi, [["c", "big", [rng.randint(0, 3)]]]]]
        if kk < 0.4:
            return ["truth", ["v", vi, [["ck", "big", {"k": rng.randint(0, 3)}]]]]
        if kk < 0.6 and o["strings"]:
            return ["truth", ["v", vi, pp + [["a", "s"], ["c", "startswith", [rng.choice(["x", "y", "xy"])]]]]]
        if kk < 0.7:
            return ["truth", ["v", vi, pp + [["a", "flag"]]]]
        if kk < 0.8:
            # truth values that are not bools (2 != True, "x" != True): only bool() of them counts
            return ["truth", ["v", vi, rng.choice([[["a", "a"]], [["a", "b"]], pp + [["a", "s"]], pp + [["a", "t"]]])]]
        return ["truth", ["v", vi, pp + [["c", "has", [rng.randint(0, 4)]]]]]
    if k < 0.94 and o["preds"]:
        kk = rng.random()
        vi = rng.randrange(len(kinds))
        vj = rng.randrange(len(kinds))
        if kk < 0.08:
            # a predicate over VALUES: mapped expressions (possibly falsy ones) as arguments
            return ["fpred", "f_vge", [gen_num(rng, kinds, o, allow_lit=False), gen_num(rng, kinds, o)]]
        if kk < 0.16:
            # a parameter with a default, given positionally or left out
            return ["fpred", "f_gtd", [["v", vi, []]] + ([["lit", rng.randint(0, 3)]] if rng.random() < 0.7 else [])]
        if kk < 0.3:
            return ["fpred", "f_gt", [["v", vi, []], ["lit", rng.randint(0, 3)]]]
        if kk < 0.5:
            return ["cpred", "CGt", [["v", vi, []], ["lit", rng.randint(0, 3)]]]
        if kk < 0.65:
            return ["fpred", "f_lt2", [["v", vi, []], ["v", vj, []]]]
        if kk < 0.8:
            return ["cpred", "CSame", [["v", vi, []], ["v", vj, []]]]
        return ["hastype", vi, rng.choice(["P", "Q", kinds[vi]])]
    l, r = gen_num(rng, kinds, o, allow_lit=False), gen_num(rng, kinds, o)
    return ["cmp", rng.choice(list(OPS)), l, r]


def gen_cond(rng, kinds, depth_, opts=None):
    o = dict(DEFAULT_OPTS)
    if opts:
        o.update(opts)
    return _gen(rng, kinds, depth_, o)


def _gen(rng, kinds, d, o):
    if d == 0 or rng.random() < o["p_leaf"]:
        return gen_leaf(rng, kinds, o)
    k = rng.random()
    if o["preds"] and o["calls"] and rng.random() < 0.04:
        # one @predicate function applied to two different attribute VALUES of one variable, the other argument alike
        vi = rng.randrange(len(kinds))
        k_ = ["lit", rng.randint(1, 3)]
        return [rng.choice(["and", "or"]), ["fpred", "f_vge", [["v", vi, [["a", "a"]]], k_]], ["fpred", "f_vge", [["v", vi, [["a", "b"]]], k_]]]
    if o["neg"] and k < o["p_not"]:
        return [rng.choice(["not", "~"]) if o["spell"] else "not", _gen(rng, kinds, d - 1, o)]
    conj = rng.random() < 0.5
    n = 3 if (o["nary"] and rng.random() < 0.15) else 2
    subs = [_gen(rng, kinds, d - 1, o) for _ in range(n)]
    if conj and o.get("consts", True) and rng.random() < 0.06:
        # a plain bool among the operands of and_ (the library wraps it in a literal; or_ does not accept one)
        subs.insert(rng.randrange(len(subs) + 1), ["const", rng.random() < 0.5])
        return ["and"] + subs
    if n == 2 and o["spell"] and rng.random() < 0.3:
        return ["&" if conj else "|"] + subs
    return ["and" if conj else "or"] + subs


# ------------------------------------------------------------------------------------------------ exhaustive enumeration
def enumerate_trees(leaves, max_size, with_not=True):
    """All condition trees with at most max_size connective nodes (binary and/or, unary not) over the leaves."""
    by_size = {0: [l for l in leaves]}
    for n in range(1, max_size + 1):
        cur = []
        if with_not:
            cur.extend(["not", s] for s in by_size[n - 1])
        for i in range(0, n):
            j = n - 1 - i
            for l in by_size[i]:
                for r in by_size[j]:
                    cur.append(["and", l, r])
                    cur.append(["or", l, r])
        by_size[n] = cur
    for n in range(0, max_size + 1):
        yield from by_size[n]


def count_trees(nleaves, max_size, with_not=True):
    t = {0: nleaves}
    for n in range(1, max_size + 1):
        t[n] = (t[n - 1] if with_not else 0) + 2 * sum(t[i] * t[n - 1 - i] for i in range(n))
    return sum(t.values())


# ------------------------------------------------------------------------------------------------ rewrites (C18)
def rewrite(c, rng):
    """A random composition of meaning-preserving rewrites."""
    t = c[0]
    if t == "cmp":
        if rng.random() < 0.5:
            return ["cmp", MIRROR[c[1]], c[3], c[2]]
        return list(c)
    if t == "in" and rng.random() < 0.5:
        return ["has", c[2], c[1]]
    if t == "has" and rng.random() < 0.5:
        return ["in", c[2], c[1]]
    if is_leaf(c):
        return list(c)
    if t in ("not", "~"):
        return [rng.choice(["not", "~"]), rewrite(c[1], rng)]
    conj = t in ("and", "&")
    subs = [rewrite(s, rng) for s in c[1:]]
    # flatten nested chains of the same connective
    flat = []
    for s in subs:
        if s[0] in (("and", "&") if conj else ("or", "|")) and rng.random() < 0.7:
            flat.extend(s[1:])
        else:
            flat.append(s)
    rng.shuffle(flat)
    return _reassoc(flat, conj, rng)


def _reassoc(items, conj, rng):
    if len(items) == 1:
        return items[0]
    if any(it[0] == "const" for it in items):
        return ["and"] + items       # a plain bool is an operand of and_(...) only (`True & cond` is a TypeError in Python)
    k = rng.random()
    if k < 0.34:
        return ["and" if conj else "or"] + items            # flat n-ary: and_(a, b, c)
    if k < 0.67:                                              # right nested with operators: a & (b & c)
        acc = items[-1]
        for it in reversed(items[:-1]):
            acc = ["&" if conj else "|", it, acc]
        return acc
    cut = rng.randint(1, len(items) - 1)                      # random split
    return ["and" if conj else "or", _reassoc(items[:cut], conj, rng), _reassoc(items[cut:], conj, rng)]


def push_not(c, neg=False):
    """Negation normal form (used as an independent second oracle route in C03: the complement identity)."""
    t = c[0]
    if t in ("not", "~"):
        return push_not(c[1], not neg)
    if t in ("and", "&", "or", "|"):
        conj = t in ("and", "&")
        if neg:
            conj = not conj
        return ["and" if conj else "or"] + [push_not(s, neg) for s in c[1:]]
    return ["not", c] if neg else c
