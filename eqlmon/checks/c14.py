"""C14  A variable without a domain ranges over exactly the live registry of instances.

History checker.  Per case a fresh class hierarchy is created with type()/make_dataclass (dataclass or hand-written
__init__, defaults, decorated and undecorated subclasses) plus an unrelated decorated family used as rule heads.
Operations: construct concretely (positional / keyword / defaults), construct symbolically, run a rule that infers
instances, clear the registry (as the repository's test fixture does), query let(T) for a class T.
Oracle: the harness's own log of concrete constructions (including the instances a rule returned) since the last clear,
filtered by isinstance, compared BY IDENTITY AS A MULTISET; an __init__/__post_init__ counter per class must not move on
symbolic construction and symbolic construction must not return an instance.
"""
from __future__ import annotations

import dataclasses
from collections import Counter

from entity_query_language import predicate


from entity_query_language import Predicate as _Predicate
from typing import Any as _Any


@dataclasses.dataclass(eq=False)
class Picky(_Predicate):
    """a predicate whose construction validates its argument and refuses n == 5"""
    x: _Any

    def __post_init__(self):
        if getattr(self.x, "n", None) == 5:
            raise ValueError("n == 5 is not acceptable")

    def __call__(self):
        return True


@predicate
def same_object(x):
    """a user predicate whose (truthy) result is an existing registered instance, not a bool"""
    return x

ID = "C14"
LEVEL = "exploration"
RULE = ("random hierarchies of 2-5 classes (root decorated; children dataclass or hand-written __init__, decorated or not, "
        "arbitrary parent) and histories of 6-16 operations {new (positional|keyword|defaults), symbolic construction, "
        "rule inference into an unrelated decorated family, clear, query let(T), start a result iterator inside or outside a "
        "block and resume it right before later constructions, evaluate a query whose @predicate returns the (registered) object itself, leave a registry query after its first result (close / drop / break) and evaluate the same query object again, raise from an evaluation inside a symbolic block (handled inside it / leaving it), define and instantiate a new subclass after its ancestors were queried, evaluate a query whose Predicate construction raises for one binding, switch result caching off and on}; every query result is compared with the "
        "construction log. Non-trivial: a query is asked for a class that has a subclass instance or an inferred "
        "instance in the log and at least one logged instance that must NOT be returned (other branch / cleared). "
        "distinct by structural hash.")
RULE += " Size cases (every tier): 130-220 instances of one class constructed in one go, then queried, also with a term T(n=v) whose plain value is equal to the stored one without being the same object."
LEVEL_TEXT = ("Offline history checker against a reference model (the list of concrete constructions): after every history "
              "step that queries, the no-domain variable must range over exactly the logged live instances of the class "
              "and its subclasses, each once; constructor-side-effect counters show symbolic construction ran no user code.")
LEVEL_NOTE = "Trusted: the construction log kept by the harness. Rules never infer into the class family they read from."
TECHNIQUE = "runtime monitoring: offline history checker against a construction log (identity multiset), init-counter monitors"
ASSUMPTIONS = ["the query is built immediately before it is evaluated (no construction in between)",
               "a rule does not infer instances of a class it ranges over"]


def plan(tier, seed):
    n = 200 if tier == "quick" else 2500
    return [{"n": n, "sub": i} for i in range(16)]


def floors(tier):
    return {"distinct_nontrivial": 300, "op:new": 3000, "op:sym": 1000, "op:rule": 500, "op:clear": 300, "op:query": 3000,
            "cls:undecorated_subclass": 500, "cls:hand_written": 500, "cls:query_after_clear": 200,
            "cls:inferred_instances_queried": 300, "op:predq": 300, "re:cls:no_domain_spelling:.*name.*": 500, "re:cls:no_domain_spelling:T\\(\\)": 500, "op:abandon": 300, "op:exc": 200, "op:newclass": 150, "op:pred_raises": 100, "op:toggle_caching": 100, "op:block_nodomain": 60, "op:bulk": 100, "op:termq": 100, "cls:live_iterator_started_in": 100, "cls:live_iterator_started_out": 100, "queries_with_subclass_instances": 300}


def gen_case(rng):
    ncls = rng.randint(2, 5)
    classes = [[None, rng.choice(["dc", "hand"]), True]]
    for i in range(1, ncls):
        parent = rng.randrange(i)
        style = rng.choice(["dc", "hand"])
        if style == "dc" and classes[parent][1] == "hand":
            style = "hand"     # a dataclass child of a hand-written __init__ would not call it; keep hierarchies conventional
        classes.append([parent, style, rng.random() < 0.5])
    out_classes = [[None, "dc", True], [0, "dc", rng.random() < 0.5]]
    ops = []
    for _ in range(rng.randint(6, 16)):
        k = rng.random()
        if k < 0.38:
            ops.append(["new", rng.randrange(ncls), rng.choice(["pos", "kw", "default"]), rng.randint(0, 5)])
        elif k < 0.5:
            ops.append(["sym", rng.randrange(ncls), rng.choice(["kw", "default"])])
        elif k < 0.6:
            ops.append(["rule", rng.randrange(ncls), rng.randrange(2), rng.randint(0, 4)])
        elif k < 0.67:
            ops.append(["clear"])
        elif k < 0.75:
            ops.append(["iter", rng.choice(["out", "in"])])
        elif k < 0.80:
            ops.append(["predq", rng.randrange(ncls)])
        elif k < 0.85:
            ops.append(["abandon", rng.randrange(ncls), rng.choice(["close", "drop", "break"])])
        elif k < 0.89:
            ops.append(["exc", rng.randrange(ncls), rng.choice(["handled_inside", "leaves_block"])])
        elif k < 0.92:
            ops.append(["newclass", rng.randrange(ncls), rng.choice(["dc", "hand"]), rng.random() < 0.5])
        elif k < 0.945:
            ops.append(["pred_raises", rng.randrange(ncls)])
        elif k < 0.965:
            ops.append(["toggle_caching"])
        elif k < 0.985:
            ops.append(["block_nodomain", rng.randrange(ncls), rng.randrange(ncls)])
        else:
            ops.append(["query", rng.choice(["main", "main", "out"]), rng.randrange(ncls)])
    if rng.random() < 0.05:
        # SIZE: 130-220 instances of one class are constructed in one go (the registry walk, its blocks and its groupings get long),
        # then queried - also with a term whose plain field value is equal to the stored one without being the same object
        pos = rng.randrange(len(ops) + 1)
        c_ = rng.randrange(ncls)
        ops[pos:pos] = [["bulk", c_, rng.randint(130, 220)], ["query", "main", c_], ["termq", c_, rng.randint(0, 100)]]
    ops.append(["query", "main", 0])
    if any(o[0] == "rule" for o in ops) and rng.random() < 0.5:
        # ... and over the classes of the inferred instances (which rule fired into which class varies: both are asked)
        ops.append(["query", "out", 0])
        ops.append(["query", "out", 1])
    return {"classes": classes, "out_classes": out_classes, "ops": ops}


def cases(spec, ctx):
    for i in range(spec["n"]):
        yield gen_case(ctx.rng(spec["sub"], i))


def make_family(spec, prefix, counters):
    from entity_query_language import symbol
    out = []
    for i, (parent, style, decorated) in enumerate(spec):
        name = f"{prefix}{i}"
        base = out[parent] if parent is not None else object
        if style == "dc":
            ns = {}
            if parent is None:
                def __post_init__(self):
                    counters["post_init:" + type(self).__name__] += 1
                ns["__post_init__"] = __post_init__
                fields = [("n", int, dataclasses.field(default=0)), ("w", int, dataclasses.field(default=3))]
            else:
                fields = [(f"extra{i}", int, dataclasses.field(default=7))]
            cls = dataclasses.make_dataclass(name, fields, bases=(base,), eq=False, namespace=ns)
        else:
            if parent is None:
                def __init__(self, n=0, w=3):
                    counters["init:" + type(self).__name__] += 1
                    self.n = n
                    self.w = w
            else:
                def __init__(self, n=0, w=3, _base=base):
                    counters["init:" + type(self).__name__] += 1
                    _base.__init__(self, n, w)
            cls = type(name, (base,), {"__init__": __init__})
        if decorated:
            cls = symbol(cls)
        out.append(cls)
    return out


def check_case(case, ctx):
    from entity_query_language import symbolic_mode, an, entity, let, infer
    from entity_query_language.symbolic import rule_mode, Variable, SymbolicExpression
    counters = Counter()
    main = make_family(case["classes"], "M", counters)
    outf = make_family(case["out_classes"], "Z", counters)
    for (_, style, deco) in case["classes"][1:]:
        if not deco:
            ctx.cls("cls:undecorated_subclass")
        if style == "hand":
            ctx.cls("cls:hand_written")
    live_iters = []   # partially consumed result iterators (over an explicit list), advanced right before constructions
    log = []          # live concrete instances since the last clear
    cleared_once = False
    history = []
    nontrivial = False
    fail = None
    for step, op in enumerate(case["ops"]):
        ctx.cls("op:" + op[0])
        if op[0] == "new":
            cls = main[op[1]]
            n = op[3]
            for it in live_iters:
                next(it, None)      # a result iterator resumed outside any block must not change what construction does
            before = sum(counters.values())
            o = cls(n) if op[2] == "pos" else cls(n=n) if op[2] == "kw" else cls()
            if type(o) is not cls:
                fail = {"what": "CONCRETE_CONSTRUCTION_RETURNED", "type": type(o).__name__}
                break
            if sum(counters.values()) == before:
                fail = {"what": "CONCRETE_CONSTRUCTION_DID_NOT_RUN_INIT", "class": cls.__name__}
                break
            log.append(o)
            history.append(["new", cls.__name__, getattr(o, "n", None)])
        elif op[0] == "bulk":
            cls = main[op[1]]
            for j in range(op[2]):
                log.append(cls(n=1000 + j))
            history.append(["bulk", cls.__name__, op[2]])
        elif op[0] == "termq":
            # a predicate-form term without a domain and with a plain field value: T(n=v), v a number computed here
            cls = main[op[1]]
            v = 1000 + op[2]
            want = [o for o in log if isinstance(o, cls) and o.n == v]
            with symbolic_mode():
                q = an(entity(cls(n=1000 + op[2])))
            got = list(q.evaluate())
            history.append(["termq", cls.__name__, v, len(got), len(want)])
            if Counter(map(id, got)) != Counter(map(id, want)):
                fail = {"what": "TERM_QUERY_WITH_PLAIN_FIELD_VALUE", "class": cls.__name__, "value": v, "expected": len(want), "observed": len(got)}
                break
        elif op[0] == "sym":
            cls = main[op[1]]
            before = Counter(counters)
            reg_before = {k: len(list(v.flat_cache)) for k, v in Variable._cache_.items()}
            with symbolic_mode():
                for it in live_iters:
                    next(it, None)  # ... nor when it is resumed inside a block
                before = Counter(counters)
                reg_before = {k: len(list(v.flat_cache)) for k, v in Variable._cache_.items()}
                s = cls(n=3) if op[2] == "kw" else cls()
            if isinstance(s, cls) or not isinstance(s, SymbolicExpression):
                fail = {"what": "SYMBOLIC_CONSTRUCTION_RETURNED_AN_INSTANCE", "type": type(s).__name__}
                break
            if counters != before:
                fail = {"what": "SYMBOLIC_CONSTRUCTION_RAN_INIT", "moved": dict(counters - before)}
                break
            reg_after = {k: len(list(v.flat_cache)) for k, v in Variable._cache_.items()}
            if {k: v for k, v in reg_after.items() if v} != {k: v for k, v in reg_before.items() if v}:
                fail = {"what": "SYMBOLIC_CONSTRUCTION_REGISTERED_SOMETHING", "before": str(reg_before), "after": str(reg_after)}
                break
            history.append(["sym", cls.__name__])
        elif op[0] == "rule":
            src, tgt, thr = main[op[1]], outf[op[2]], op[3]
            want = [o for o in log if isinstance(o, src) and o.n > thr]
            with rule_mode():
                x = let(src)
                q = infer(entity(tgt(n=x.n), x.n > thr))
            res = list(q.evaluate())
            if any(type(r) is not tgt for r in res) or sorted(r.n for r in res) != sorted(o.n for o in want):
                fail = {"what": "RULE_RESULT", "expected_n": sorted(o.n for o in want), "observed": [(type(r).__name__, getattr(r, "n", None)) for r in res]}
                break
            log.extend(res)
            history.append(["rule", src.__name__, tgt.__name__, len(res)])
        elif op[0] == "predq":
            cls = main[op[1]]
            want = [o for o in log if isinstance(o, cls)]
            with symbolic_mode():
                x = let(cls)
                q = an(entity(x, same_object(x)))
            got = list(q.evaluate())
            history.append(["predq", cls.__name__, len(got), len(want)])
            if Counter(map(id, got)) != Counter(map(id, want)):
                fail = {"what": "QUERY_WITH_PREDICATE", "class": cls.__name__, "expected": len(want), "observed": len(got)}
                break
        elif op[0] == "abandon":
            # a query over the registry that is left after its first result: later constructions stay visible
            cls = main[op[1]]
            want = [o for o in log if isinstance(o, cls)]
            with symbolic_mode():
                q = an(entity(let(cls)))
            if op[2] == "break":
                for first in q.evaluate():
                    break
                else:
                    first = None
            else:
                it = q.evaluate()
                first = next(it, None)
                if op[2] == "close":
                    it.close()
                else:
                    del it
            if (first is None) != (not want) or (want and not any(first is o for o in want)):
                fail = {"what": "QUERY_FIRST_RESULT", "class": cls.__name__, "expected_any_of": len(want), "observed": repr(first)}
                break
            history.append(["abandon", cls.__name__, op[2], len(want)])
            # ... and the same query object (the same variable) evaluated right after it was left: every live instance again
            again = list(q.evaluate())
            if Counter(map(id, again)) != Counter(map(id, want)):
                fail = {"what": "QUERY_AGAIN_AFTER_IT_WAS_ABANDONED", "class": cls.__name__, "how_left": op[2], "expected": len(want),
                        "observed": len(again)}
                break
        elif op[0] == "exc":
            # an exception raised by an evaluation inside a symbolic block: the block stays symbolic if the exception is
            # handled inside it, and the mode is off again if the exception leaves it
            from entity_query_language import the
            cls = main[op[1]]
            if op[2] == "handled_inside":
                with symbolic_mode():
                    try:
                        the(entity(let(cls, []))).evaluate()
                        fail = {"what": "THE_OVER_NOTHING_DID_NOT_RAISE"}
                    except Exception:
                        pass
                    before = Counter(counters)
                    reg_before = {k: len(list(v.flat_cache)) for k, v in Variable._cache_.items()}
                    s = cls()
                if fail:
                    break
                reg_after = {k: len(list(v.flat_cache)) for k, v in Variable._cache_.items()}
                if isinstance(s, cls) or not isinstance(s, SymbolicExpression) or counters != before or \
                        {k: v for k, v in reg_after.items() if v} != {k: v for k, v in reg_before.items() if v}:
                    fail = {"what": "BLOCK_NOT_SYMBOLIC_AFTER_HANDLED_EXCEPTION", "type": type(s).__name__,
                            "init_ran": counters != before}
                    break
            else:
                try:
                    with symbolic_mode():
                        the(entity(let(cls, []))).evaluate()
                    fail = {"what": "THE_OVER_NOTHING_DID_NOT_RAISE"}
                    break
                except Exception:
                    pass
                o = cls(1)
                if type(o) is not cls:
                    fail = {"what": "CONSTRUCTION_SYMBOLIC_AFTER_EXCEPTION_LEFT_THE_BLOCK", "type": type(o).__name__}
                    break
                log.append(o)
            history.append(["exc", cls.__name__, op[2]])
        elif op[0] == "newclass":
            # a subclass that is DEFINED (and instantiated) after queries over its ancestors were already built and evaluated
            parent = main[op[1] % len(main)]
            nm = f"M{len(main)}late"
            if op[2] == "dc" and dataclasses.is_dataclass(parent):
                cls = dataclasses.make_dataclass(nm, [(f"late{len(main)}", int, dataclasses.field(default=1))], bases=(parent,), eq=False)
            else:
                cls = type(nm, (parent,), {})
            if op[3]:
                from entity_query_language import symbol as _symbol
                cls = _symbol(cls)
            main.append(cls)
            o = cls(2)
            if type(o) is not cls:
                fail = {"what": "CONCRETE_CONSTRUCTION_RETURNED", "type": type(o).__name__}
                break
            log.append(o)
            history.append(["newclass", cls.__name__, parent.__name__, "decorated" if op[3] else "undecorated"])
        elif op[0] == "pred_raises":
            # a Predicate subclass whose construction raises for one binding: the exception reaches the caller of evaluate();
            # whatever is constructed afterwards is registered as usual
            cls = main[op[1] % len(main)]
            want = [o for o in log if isinstance(o, cls)]
            with symbolic_mode():
                x = let(cls)
                q = an(entity(x, Picky(x)))
            try:
                got = list(q.evaluate())
                raised = False
            except ValueError:
                raised = True
            if raised != any(getattr(o, "n", 0) == 5 for o in want):
                fail = {"what": "PICKY_PREDICATE", "raised": raised, "instances_with_n_5": sum(1 for o in want if getattr(o, "n", 0) == 5)}
                break
            if not raised and Counter(map(id, got)) != Counter(map(id, want)):
                fail = {"what": "QUERY_WITH_PREDICATE", "class": cls.__name__, "expected": len(want), "observed": len(got)}
                break
            o = main[0](4)
            log.append(o)
            history.append(["pred_raises", cls.__name__, raised])
        elif op[0] == "block_nodomain":
            # a query whose block adds a predicate term; another no-domain variable is declared and queried INSIDE that block: it
            # is a variable of its own, ranging over the registry
            from entity_query_language import HasType
            ck, cj = main[op[1] % len(main)], main[op[2] % len(main)]
            want_q = [o for o in log if isinstance(o, main[0]) and isinstance(o, ck)]
            want_inner = [o for o in log if isinstance(o, cj)]
            with symbolic_mode():
                with an(entity(let(main[0]))) as bq:
                    HasType(ck)
                    inner = an(entity(let(cj)))
            got_q, got_inner = list(bq.evaluate()), list(inner.evaluate())
            if Counter(map(id, got_q)) != Counter(map(id, want_q)) or Counter(map(id, got_inner)) != Counter(map(id, want_inner)):
                fail = {"what": "QUERY_IN_A_QUERY_BLOCK", "outer": [len(got_q), len(want_q)], "inner": [len(got_inner), len(want_inner)],
                        "classes": [ck.__name__, cj.__name__]}
                break
            history.append(["block_nodomain", ck.__name__, cj.__name__, len(got_q), len(got_inner)])
        elif op[0] == "toggle_caching":
            # switching the result cache off and on again has nothing to do with the registry of instances: neither for the
            # instances that exist nor for those constructed (by hand or by a rule) while it is off
            from entity_query_language.cache_data import enable_caching, disable_caching
            disable_caching()
            try:
                o = main[0](3)
                log.append(o)
                src, tgt = main[0], outf[0]
                want_r = [x_ for x_ in log if isinstance(x_, src) and x_.n > 2]
                with rule_mode():
                    x = let(src)
                    rq = infer(entity(tgt(n=x.n), x.n > 2))
                res = list(rq.evaluate())
                if sorted(r.n for r in res) != sorted(x_.n for x_ in want_r):
                    fail = {"what": "RULE_RESULT", "while": "caching disabled", "expected_n": sorted(x_.n for x_ in want_r),
                            "observed": [(type(r).__name__, getattr(r, "n", None)) for r in res]}
                log.extend(res)
            finally:
                enable_caching()
            if fail:
                break
            history.append(["toggle_caching", "constructed 1 + inferred %d while off" % len(res)])
        elif op[0] == "iter":
            pool = [o for o in log if isinstance(o, main[0])][:4]
            if len(pool) >= 2:
                if op[1] == "in":
                    with symbolic_mode():
                        it = an(entity(let(main[0], list(pool)))).evaluate()
                        first = next(it, None)
                else:
                    with symbolic_mode():
                        q = an(entity(let(main[0], list(pool))))
                    it = q.evaluate()
                    first = next(it, None)
                if first is not pool[0]:
                    fail = {"what": "ITERATOR_RESULT", "observed": repr(first)}
                    break
                live_iters.append(it)
                ctx.cls("cls:live_iterator_started_" + op[1])
            history.append(["iter", op[1], len(pool)])
        elif op[0] == "clear":
            for c in Variable._cache_.values():
                c.clear()
            Variable._cache_.clear()
            log.clear()
            cleared_once = True
            history.append(["clear"])
        else:
            fam = main if op[1] == "main" else outf
            cls = fam[op[2] % len(fam)]
            want = [o for o in log if isinstance(o, cls)]
            spelling = ["let(T)", "let(T, name=...)", "T()"][step % 3]
            with symbolic_mode():
                q = an(entity(let(cls) if step % 3 == 0 else let(cls, name="v") if step % 3 == 1 else cls()))
            ctx.cls("cls:no_domain_spelling:" + spelling)
            got = list(q.evaluate())
            history.append(["query", cls.__name__, len(got), len(want), spelling])
            if Counter(map(id, got)) != Counter(map(id, want)):
                fail = {"what": "QUERY", "class": cls.__name__, "expected": len(want), "observed": len(got),
                        "duplicates": len(got) != len(set(map(id, got))),
                        "missing_types": sorted({type(o).__name__ for o in want if id(o) not in set(map(id, got))}),
                        "extra_types": sorted({type(o).__name__ for o in got if id(o) not in set(map(id, want))})}
                break
            if cleared_once:
                ctx.cls("cls:query_after_clear")
            if any(type(o) is not cls for o in want):
                ctx.count("queries_with_subclass_instances")
            if fam is outf and want:
                ctx.cls("cls:inferred_instances_queried")
            if want and len(want) < len(log) and (any(type(o) is not cls for o in want) or fam is outf):
                nontrivial = True
    if nontrivial:
        ctx.nontrivial()
    if fail:
        fail["step"] = step
        fail["history"] = history
        ctx.fail(fail["what"], fail)
    ctx.sample({"classes": case["classes"], "ops": case["ops"], "history": history})
