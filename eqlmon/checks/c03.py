"""C03  Negation returns the exact complement, at any nesting depth.

Refuting events: rows(not_(c)) != product - rows(c)   (complement identity on the real results, oracle-free);
rows(not_(c)) != oracle(not c);  rows(not_(not_(c))) != rows(c).  Every side is built from a FRESH expression (EQL's
Not mutates its operand; aliasing one expression object in two queries is outside the statement).
"""
from __future__ import annotations

import itertools

from .. import classify as KF
from .. import cond as C
from .. import data as D
from .. import harness as H
from .. import monitors as M
from .. import multi
from . import c01

ID = "C03"
LEVEL = "exploration"
RULE = ("(a) exhaustive: every condition tree with <= N connective nodes (N=2 quick, 3 thorough; the trees already contain "
        "negations at every depth) over C01's 6-leaf alphabet, wrapped in 1 and in 2 further negations, on the "
        "truth-table-complete 32-object domain, and the same for C02's six two-variable leaves (joins) on its fixed 3x4 world; (b) random: 1-3 variables, depth<=4, negation probability raised to "
        "0.35 per node so leaves sit under 0-4 negations, all six comparison operators, contains/in_ both directions, "
        "boolean calls and attributes, both predicate kinds, HasType, root wrapped in 1-3 negations spelled not_ or ~; "
        "(c) random depth<=2 trees of comparisons between PARTIALLY ordered attribute values (frozensets, floats with NaN), "
        "where the complement of a<b is not a>=b, and of a predicate whose arguments are attribute VALUES that may be 0; a fifth of the random cases spell the outermost negation as not_(set_of(selection, conjuncts...)) and are evaluated twice, a quarter replace literal operands by the attribute of a nested single-solution an(...) query; (d) Predicate terms (plain and negated) written inside the block of the query (`with an(T(From(d))) as q: ...`), which add themselves to it. "
        "All variables selected. Non-trivial: both c and not c have at least one satisfying assignment.")
RULE += " Size cases (every tier): the complement over domains of 80-300 objects, self-joins with more than a thousand pairs, 6-9 operands, 5-6 variables; memberships in two long collections (22 and 24 elements) of one owner."
LEVEL_TEXT = ("Reference-model monitoring plus an oracle-free identity: rows of not_(c) must be the set complement of the rows "
              "of c within the Cartesian product and equal the oracle; not_(not_(c)) must return the rows of c. Bounded "
              "exhaustive over small trees, random beyond. The leaf monitor checks every leaf's truth flag with the "
              "parity of the negations above it, which localises a wrong inverse even when a disjunction masks it.")
LEVEL_NOTE = ("Trusted: oracle + translation, except for the complement identity which needs neither. K05 (caching) is the "
              "only listed finding that can mask a failing multi-variable case, attributed as in C02.")
TECHNIQUE = "runtime monitoring: complement identity + differential oracle on results, leaf truth-flag invariant, bounded-exhaustive + random workloads"
ASSUMPTIONS = [
    "each of c, not c, not not c is built from a fresh expression tree",
    "no falsy attribute values (C19)",
]
SIZES = {"quick": 2, "thorough": 3}


def exhaustive_info(tier):
    n = SIZES[tier]
    return {"exhaustive": True,
            "bound": f"all {C.count_trees(len(c01.LEAVES), n)} trees with <= {n} connectives over 6 leaves, each under 1 and 2 "
                     f"extra negations, on the 32-object truth-table-complete domain; multi-variable part sampled"}


def plan(tier, seed):
    nsh = 16
    specs = [{"kind": "exh", "size": SIZES[tier], "stride": nsh, "offset": i} for i in range(nsh)]
    n = 220 if tier == "quick" else 2500
    specs += [{"kind": "rand", "n": n, "sub": i} for i in range(nsh)]
    specs += [{"kind": "exh2", "size": SIZES[tier], "stride": nsh, "offset": i} for i in range(nsh)]
    specs += [{"kind": "po", "n": 90 if tier == "quick" else 900, "sub": 100 + i} for i in range(nsh)]
    specs += [{"kind": "block", "n": 40 if tier == "quick" else 400, "sub": 200 + i} for i in range(nsh)]
    specs += [{"kind": "scale", "n": 3 if tier == "quick" else 14, "sub": 300 + i} for i in range(nsh)]
    return specs


def floors(tier):
    return {"distinct_nontrivial": 500, "leaf.ok": 5000, "re:cls:neg_depth>=2": 200, "cls:tag:neg:in": 10,
            "cls:tag:neg:has": 10, "cls:tag:neg:truth": 10, "cls:tag:neg:fpred": 5, "cls:tag:neg:cpred": 5,
            "cls:tag:neg:hastype": 3, "re:cls:tag:neg:cmp.*": 100, "re:ElseIf(@.*)?\\.enter": 500,
            "re:AND(@.*)?\\.enter": 500, "cls:nvars=2": 50, "cls:nvars=3": 50,
            "cls:partial_order:sets": 150, "cls:partial_order:nan": 150, "cls:partial_order:falsy_pred_arg": 150,
            "cls:block_style_predicate_terms": 200, "cls:negation_applied_to_the_description": 300, "cls:preceded_by_an_abandoned_evaluation": 1500, "re:cls:scale:.*": 140, "cls:operand_is_single_solution_subquery": 200, "cls:block_style_negated_term": 100}


def _po_case(rng):
    """Partially ordered values (sets under <, <=; NaN): the complement of a < b is NOT a >= b."""
    from .c02 import A
    mode = rng.choice(["sets", "nan", "falsy_pred_arg"])

    def val():
        if mode == "falsy_pred_arg":
            return rng.choice([0, 0, 1, 2])
        if mode == "sets":
            return {"fs": sorted(rng.sample([1, 2, 3], rng.randint(0, 3)))}
        return rng.choice(["nan", 1.0, 2.0, "nan", 3.0])
    kinds = rng.choice([["P", "Q"], ["P", "P"], ["P"]])
    nP, nQ = rng.randint(2, 4), rng.randint(2, 4)
    world = {"P": [{"a": val(), "b": val()} for _ in range(nP)],
             "Q": [{"a": val(), "b": val(), "p": rng.randrange(nP)} for _ in range(nQ)]}

    def leaf():
        i, j = rng.randrange(len(kinds)), rng.randrange(len(kinds))
        if mode == "falsy_pred_arg":
            # a predicate over VALUES that may be falsy: its negation is the complement whatever the truth of an argument
            return ["fpred", "f_vge", [A(i, rng.choice("ab")), A(j, rng.choice("ab")) if rng.random() < 0.5 else ["lit", rng.choice([0, 1])]]]
        return ["cmp", rng.choice(["<", "<=", ">", ">=", "==", "!="]), A(i, rng.choice("ab")), A(j, rng.choice("ab"))]

    def tree(d):
        if d == 0 or rng.random() < 0.3:
            return leaf()
        r = rng.random()
        if r < 0.3:
            return [rng.choice(["not", "~"]), tree(d - 1)]
        return [rng.choice(["and", "or"]), tree(d - 1), tree(d - 1)]
    return {"k": "po", "mode": mode, "world": world, "kinds": kinds, "cond": tree(rng.randint(0, 2)),
            "sel": list(range(len(kinds))), "wrap": [rng.choice(["not", "~"]) for _ in range(2)]}


def _block_case(rng):
    """conditions written as Predicate terms inside the block of the query (`with an(T(From(d))) as q: CGt(1); not_(HasType(P2))`):
    every term adds itself to the query, its first argument is the selected variable implicitly"""
    world = D.random_world(rng, np_=(3, 6), nq=(1, 2))
    for o in world["P"]:
        o["cls"] = rng.choice([0, 0, 1, 2])
    terms = []
    for _ in range(rng.randint(1, 3)):
        kind = rng.choice(["CGt", "HasType"])
        terms.append([rng.random() < 0.5, kind, rng.randint(0, 3) if kind == "CGt" else rng.choice(["P2", "P3", "P"])])
    return {"k": "block", "world": world, "terms": terms}


def _block_rows(world, terms, flip_all=False):
    """-> (observed labels, expected labels)"""
    from entity_query_language import symbolic_mode, an, From, not_, HasType
    m = H.labels_of(world)
    ps = world["P"]
    types = {"P": D.P, "P2": D.P2, "P3": D.P3}
    with symbolic_mode():
        with an(D.P(From(ps))) as q:
            for neg, kind, arg in terms:
                neg = neg != flip_all
                t = D.CGt(arg) if kind == "CGt" else HasType(types[arg])
                if neg:
                    not_(t)

    def ok(o, neg, kind, arg):
        v = o.a > arg if kind == "CGt" else isinstance(o, types[arg])
        return v != (neg != flip_all)
    return [H.lab(m, r) for r in q.evaluate()], [m[id(o)] for o in ps if all(ok(o, *t) for t in terms)]


def check_block_case(case, ctx):
    world = D.build_world(case["world"])
    ctx.cls("cls:block_style_predicate_terms")
    if any(t[0] for t in case["terms"]):
        ctx.cls("cls:block_style_negated_term")
    try:
        got, exp = _block_rows(world, case["terms"])
    except Exception as e:
        import traceback
        ctx.fail("EXC", f"block style: {type(e).__name__}: {e}\n{traceback.format_exc()[-500:]}")
        return
    if 0 < len(exp) < len(world["P"]):
        ctx.nontrivial()
    if sorted(got) != sorted(exp):
        ctx.fail("BLOCK_STYLE", {"terms": case["terms"], "expected": exp, "observed": got})
        return
    if len(case["terms"]) == 1:
        # one term and its negation partition the domain
        got2, exp2 = _block_rows(D.build_world(case["world"]), case["terms"], flip_all=True)
        if sorted(got2) != sorted(exp2) or len(got) + len(got2) != len(world["P"]):
            ctx.fail("BLOCK_STYLE_COMPLEMENT", {"terms": case["terms"], "rows": len(got), "rows_negated": len(got2),
                                                "domain": len(world["P"]), "expected_negated": exp2, "observed_negated": got2})
    ctx.sample({"block_style_terms": case["terms"], "expected": exp, "observed": got})


def cases(spec, ctx):
    if spec["kind"] == "block":
        for i in range(spec["n"]):
            yield _block_case(ctx.rng(spec["sub"], i))
        return
    if spec["kind"] == "scale":
        # SIZE: the complement over domains of 80-300 objects, self-joins with more than a thousand pairs, 6-9 operands, 5-6 variables
        fl = ["selfjoin_big", "single_big", "wide_join", "many_vars", "join_big", "single_big", "selfjoin_big"]
        for i in range(spec["n"]):
            rng = ctx.rng(spec["sub"], i)
            case = multi.gen_scale_case(rng, fl[(spec["sub"] + i) % len(fl)])
            case["sel"] = list(range(len(case["kinds"])))
            case.update({"k": "rand", "wrap": [rng.choice(["not", "~"])], "take_first": 0, "scale_case": True})
            yield case
        return
    if spec["kind"] == "po":
        for i in range(spec["n"]):
            yield _po_case(ctx.rng(spec["sub"], i))
        return
    if spec["kind"] == "exh2":
        from . import c02
        for i, tree in enumerate(C.enumerate_trees(c02.LEAVES2, spec["size"])):
            if i % spec["stride"] == spec["offset"]:
                yield {"k": "exh2", "world": c02.W2, "kinds": ["P", "Q"], "cond": tree, "sel": [0, 1], "wrap": ["not", "~"]}
        return
    if spec["kind"] == "exh":
        for i, tree in enumerate(C.enumerate_trees(c01.LEAVES, spec["size"])):
            if i % spec["stride"] == spec["offset"]:
                yield {"k": "exh", "kinds": ["P"], "cond": tree, "sel": [0], "wrap": ["not", "not"]}
        return
    for i in range(spec["n"]):
        rng = ctx.rng(spec["sub"], i)
        nv = rng.choice([1, 2, 2, 3])
        case = multi.gen_case(rng, nvars=(nv, nv), depth=(1, 4), opts={"p_not": 0.35}, sel_mode="all",
                              world_kw={"np_": (2, 4), "nq": (2, 4)})
        case["k"] = "rand"
        case["wrap"] = [rng.choice(["not", "~"]) for _ in range(rng.randint(2, 3))]
        case["not_of_description"] = rng.random() < 0.2
        case["take_first"] = rng.choice([0, 0, 0, 1, 2, 4])
        if rng.random() < 0.25:
            case["subquery_operands"] = C.with_single_solution_subquery(rng, case["cond"], D.build_world(case["world"]))
        yield case


def _wrapped(cond, wrap, n):
    c = cond
    for w in wrap[:n]:
        c = [w, c]
    return c


def _max_neg(c, neg=0):
    if C.is_leaf(c):
        return neg
    if c[0] in ("not", "~"):
        return _max_neg(c[1], neg + 1)
    return max(_max_neg(s, neg) for s in c[1:])


def _rows(case, world, cond, caching=True):
    cc = dict(case)
    cc["cond"] = cond
    exp = multi.expected(cc, world)
    if case.get("not_of_description") and cond[0] in ("not", "~"):
        # spelled not_(set_of(selection, conditions...)) and evaluated twice
        both = multi.evaluate(cc, world, caching=caching, times=2, negate_description=True)
        if sorted(both[0]) != sorted(both[1]):
            return both[1], exp         # the second evaluation is the one that is judged then
        return both[0], exp
    # a share of the cases: the judged evaluation comes after one that was left after a few rows (closed), or that user code aborted
    return multi.evaluate(cc, world, caching=caching, take_first=case.get("take_first", 0))[0], exp


def check_case(case, ctx):
    if case.get("k") == "block":
        return check_block_case(case, ctx)
    world = D.build_world(case.get("world") or c01.TT)
    kinds = case["kinds"]
    prod = [tuple(r) for r in multi.expected({**case, "cond": None}, world)]
    ctx.cls(f"cls:nvars={len(kinds)}")
    if case.get("not_of_description"):
        ctx.cls("cls:negation_applied_to_the_description")
    if case.get("scale"):
        ctx.cls("cls:scale:" + case["scale"])
    if case.get("take_first"):
        ctx.cls("cls:preceded_by_an_abandoned_evaluation")
    if case.get("k") == "po":
        ctx.cls("cls:partial_order:" + case["mode"])
    if case.get("subquery_operands"):
        ctx.cls("cls:operand_is_single_solution_subquery")
    results = []
    nwrap = len(case["wrap"])
    deepest = _wrapped(case["cond"], case["wrap"], nwrap)
    for tag in C.shape_tags(deepest):
        ctx.cls("cls:tag:" + tag)
    ctx.cls("cls:neg_depth>=2" if _max_neg(deepest) >= 2 else "cls:neg_depth<2")
    bad = False
    for n in range(nwrap + 1):
        cond = _wrapped(case["cond"], case["wrap"], n)
        try:
            got, exp = _rows(case, world, cond)
        except Exception as e:
            ctx.fail("EXC", f"negations_at_root={n}: {type(e).__name__}: {e}", negations=n)
            return
        results.append((got, exp))
        k = H.diff_kind(got, exp, ordered=False, multiset=True)
        if k:
            bad = True
            ctx.fail(k, {"negations_at_root": n, "condition": cond, "missing": sorted(set(exp) - set(got))[:8],
                         "extra": sorted(set(got) - set(exp))[:8], "leaf_flag_mismatches": list(M.LEAF_MISMATCHES)},
                     negations=n)
    if 0 < len(results[0][1]) < len(prod):
        ctx.nontrivial()
    if bad:
        return
    # oracle-free identities on the observed rows
    for n in range(1, nwrap + 1):
        prev, cur = set(results[n - 1][0]), set(results[n][0])
        if cur != set(prod) - prev:
            ctx.fail("COMPLEMENT", {"negations_at_root": n, "not_complement_of_previous": True}, negations=n)
    if nwrap >= 2 and sorted(results[2][0]) != sorted(results[0][0]):
        ctx.fail("DOUBLE_NEGATION", {"rows_c": len(results[0][0]), "rows_not_not_c": len(results[2][0])}, negations=2)
    if M.LEAF_MISMATCHES:
        ctx.count("leaf.mismatch_in_correct_case")
    ctx.sample({"kinds": kinds, "condition": case["cond"], "wrap": case["wrap"],
                "rows_c": len(results[0][0]), "rows_not_c": len(results[1][0]), "product": len(prod)})


def classify(f, ctx):
    case = f["case"]
    if case.get("k") == "block":
        return None
    if "negations" not in f or f["kind"] in ("COMPLEMENT", "DOUBLE_NEGATION"):
        return None
    world = D.build_world(case.get("world") or c01.TT)
    cond = _wrapped(case["cond"], case["wrap"], f["negations"])
    cc = dict(case)
    cc["cond"] = cond
    exp = multi.expected(cc, world)
    # (the counterfactual runs repeat the history of the failing run: the same abandoned-first evaluation)
    r = KF.attribute(f, lambda caching: multi.evaluate(cc, world, caching=caching, take_first=case.get("take_first", 0))[0], exp,
                     mentioned_not_selected=False,
                     compare=lambda got, e: H.diff_kind(got, e, ordered=False, multiset=True), nvars=len(case["kinds"]))
    return r if r == "K05" else None
