"""C06  `the` returns the unique solution or raises, consistently with `an`.

For a description with n satisfying assignments (every variable selected): n == 0 -> NoSolutionFound, n == 1 -> the
value `an` yields (identity; per selected variable for set_of), n >= 2 -> MultipleSolutionFound; the same outcome on
re-evaluation (three evaluations), inside and outside a symbolic block.
"""
from __future__ import annotations

import contextlib
import itertools

from .. import cond as C
from .. import data as D
from .. import harness as H
from .. import multi

ID = "C06"
LEVEL = "exploration"
RULE = ("random descriptions over 1-3 variables (all selected; entity() for one variable, set_of() otherwise; joins, "
        "negation, predicates; depth<=3), rejection-sampled on the oracle count so that the three outcome classes "
        "{0, 1, >=2 solutions} are about equally frequent; a quarter of the cases range over objects with VALUE equality "
        "of which several are equal to each other (solutions are counted by identity); some cases give no domain at all, so the variables range over the registry, which holds instances of a subclass and of a subclass of the subclass; some use the predicate-form spelling the(T(From(d), f=v)); some follow an earlier query over the same variable objects (the negated description, or a join with a plain variable as first operand of ==); feature-interaction descriptions (eqlmon/ix.py), a quarter of them with a for_all over inner collections some of which are EMPTY (then the reference is the an(...) twin, not the oracle); each description is evaluated three times with the(...) and "
        "once with an(...), under ambient mode none / query / rule, caching on and off. Non-trivial: every case (each "
        "has a definite expected outcome class); distinct by structural hash; classes are counted separately.")
RULE += " Size cases (every tier): the(...) over domains of 80-300 objects and joins with hundreds of candidate rows, pinned to 0, 1 or many solutions by conjuncts on the position fields; a description that is one equality between two attributes of the same variable, true for exactly 0, 1 or 2 of 80-300 objects."
LEVEL_TEXT = ("Reference-model monitoring of the outcome class and value of the(...).evaluate() against the oracle count and "
              "against the real an(...) result of a fresh copy of the same description, repeated to expose sticky state.")
LEVEL_NOTE = "Trusted: the oracle count; `an` of the same description (checked against the oracle in C01/C02)."
TECHNIQUE = "runtime monitoring: outcome-class oracle + differential against an(), repeated evaluation, class-balanced generation"
ASSUMPTIONS = ["every variable of the description is selected (the statement's premise)", "no falsy values (C19)"]


def plan(tier, seed):
    n = 220 if tier == "quick" else 2500
    return [{"n": n, "sub": i} for i in range(16)] + [{"kind": "ix", "n": 40 if tier == "quick" else 400, "sub": 900 + i} for i in range(16)] + \
        [{"kind": "scale", "n": 3 if tier == "quick" else 12, "sub": 1300 + i} for i in range(16)]


def floors(tier):
    return {"distinct_nontrivial": 500, "cls:n=0": 300, "cls:n=1": 300, "cls:n>=2": 300, "cls:form:entity": 200,
            "cls:form:set_of": 300, "cls:form:predform": 100, "cls:predform_with_further_properties": 40, "cls:ambient:query": 100, "cls:ambient:rule": 100, "cls:caching_off": 200,
            "cls:equal_valued_distinct_objects": 300, "cls:domain_without_instances_of_the_type": 100, "cls:solutions_equal_by_value": 50, "cls:feature_interaction_description": 300, "cls:earlier_query_on_the_same_variables": 300, "re:cls:scale:.*": 100, "cls:no_domain_registry_with_subclass_instances": 150,
            "re:The(@.*)?\\.enter": 0}


def _count(case, world):
    doms = H.domains(world, case["kinds"])
    return sum(1 for asg in itertools.product(*doms) if C.holds(case["cond"], asg))


def check_ix_the_case(case, ctx):
    """the(...) over a feature-interaction description (eqlmon/ix.py) in which every variable is selected"""
    from entity_query_language import MultipleSolutionFound, NoSolutionFound
    from entity_query_language.cache_data import enable_caching, disable_caching
    from .. import ix
    c = case["ix"]
    es, ps = ix.build_world(c["world"])
    exp = ix.expected(c, es, ps)
    if c.get("empty_collections"):
        # elements whose own collection is empty: what a for_all over no value means is not judged (C10 speaks of non-empty
        # domains), so here the reference is the an(...) twin of the same description - C06 states that the agrees with an
        ctx.cls("cls:description_with_empty_collections")
        (enable_caching if c["caching"] else disable_caching)()
        try:
            q_an, enc_an = ix.build(c, es, ps, quant="an")
            exp = [enc_an(r) for r in q_an.evaluate()]
        finally:
            enable_caching()
    n = len(exp)
    ctx.cls("cls:feature_interaction_description")
    ctx.cls("cls:n=0" if n == 0 else "cls:n=1" if n == 1 else "cls:n>=2")
    ctx.nontrivial()
    want = ["none"] if n == 0 else ["multiple"] if n >= 2 else ["value", list(exp[0])]
    (enable_caching if c["caching"] else disable_caching)()
    outs = []
    try:
        q, enc = ix.build(c, es, ps, quant="the")
        for _ in range(3):
            try:
                outs.append(["value", list(enc(q.evaluate()))])
            except MultipleSolutionFound:
                outs.append(["multiple"])
            except NoSolutionFound:
                outs.append(["none"])
            except Exception as e:
                outs.append(["EXC", f"{type(e).__name__}: {e}"[:200]])
    finally:
        enable_caching()
    for rep, o in enumerate(outs):
        if o != want:
            ctx.fail("OUTCOME", {"evaluation": rep + 1, "solutions": n, "expected": want, "observed": o, "all_evaluations": outs,
                                 "query": {k: c[k] for k in ("c0", "c1", "atoms", "sel")}})
            break
    ctx.sample({"feature_interaction": {k: c[k] for k in ("c0", "c1", "atoms", "sel")}, "solutions": n, "outcomes": outs})


def cases(spec, ctx):
    if spec.get("kind") == "ix":
        from .. import ix
        for i in range(spec["n"]):
            rng = ctx.rng(spec["sub"], i)
            want = i % 3
            best = None
            fam = {"forall_subs", "forall_subs_pred", "forall_subs_vs_d"}
            for _ in range(60 if i % 4 != 3 else 400):     # rejection sampling on the number of solutions, every variable selected
                c = ix.gen_case(rng)
                if not ix.all_selected(c):
                    continue
                if i % 4 == 3 and not (ix.tags(c) & fam):   # (a quarter: a universal statement over the element's own collection)
                    continue
                es, ps = ix.build_world(c["world"])
                best = c
                if min(len(ix.expected(c, es, ps)), 2) == want:
                    break
            if best is not None:
                if i % 4 == 3 and ix.tags(best) & {"forall_subs", "forall_subs_pred", "forall_subs_vs_d"}:
                    for j in rng.sample(range(len(best["world"]["subs"])), rng.randint(1, 3)):
                        best["world"]["subs"][j] = []
                    best["empty_collections"] = True
                yield {"ix": best}
        return
    if spec.get("kind") == "scale":
        # SIZE: the(...) over domains of 80-300 objects and over joins with hundreds of candidate rows, pinned to 0, 1 or many
        # solutions by a last conjunct on the position fields of the objects; every description is evaluated three times
        for i in range(spec["n"]):
            rng = ctx.rng(spec["sub"], i)
            case = multi.gen_scale_case(rng, rng.choice(["single_big", "join_big", "selfjoin_big", "single_big"]))
            if case["cond"][0] == "not":
                case["cond"] = case["cond"][1]
            j = i + spec["sub"]
            if j % 4 == 1:
                # the whole description is ONE equality between two attributes of the same variable, true for exactly j % 3 objects
                case = multi.gen_scale_case(rng, "single_big")
                ps = case["world"]["P"]
                for o in ps:
                    if o["a"] == o["b"]:
                        o["b"] = o["a"] + 1
                for o in rng.sample(ps, j % 3):
                    o["b"] = o["a"]
                case["cond"] = ["cmp", "==", ["v", 0, [["a", "a"]]], ["v", 0, [["a", "b"]]]]
                case.update({"sel": [0], "form": "entity", "ambient": "none", "caching": rng.random() < 0.85,
                             "earlier_query_on_the_same_variables": False})
                yield case
                continue
            case["sel"] = list(range(len(case["kinds"])))
            world = D.build_world(case["world"])
            sols = [asg for asg in itertools.product(*H.domains(world, case["kinds"])) if C.holds(case["cond"], asg)]
            want = (j // 2) % 3
            if want == 1 and sols:
                pick = rng.choice(sols)
                pins = [["cmp", "==", ["v", vi, [["a", "ix"]]], ["lit", o.ix]] for vi, o in enumerate(pick)]
                if case["kinds"] == ["P", "P"] or len(pins) == 1:
                    case["cond"] = ["and", case["cond"]] + pins
                else:   # (pins written after the join, one per variable)
                    case["cond"] = ["and", case["cond"], pins[0], pins[1]]
            elif want == 0:
                case["cond"] = ["and", case["cond"], ["cmp", "<", ["v", 0, [["a", "ix"]]], ["lit", 0]]]
            case.update({"form": "set_of", "ambient": "none", "caching": rng.random() < 0.85,
                         "earlier_query_on_the_same_variables": False})
            yield case
        return
    for i in range(spec["n"]):
        rng = ctx.rng(spec["sub"], i)
        want = i % 3
        best = None
        eqobj = rng.random() < 0.25
        for _ in range(40):
            nv = rng.choice([1, 1, 2, 2, 3])
            case = multi.gen_case(rng, nvars=(nv, nv), depth=(1, 3), sel_mode="all", allow_expr_sel=False,
                                  world_kw={"np_": (1, 3), "nq": (1, 3)})
            if eqobj:
                # a variable over objects with VALUE equality, some of them equal to each other: the number of solutions
                # counts distinct objects, not distinct values
                D.add_equal_valued_objects(rng, case["world"])
                case["kinds"][rng.randrange(nv)] = "E"
                case["cond"] = C.gen_cond(rng, case["kinds"], rng.randint(0, 2), {"p_leaf": 0.3})
            n = _count(case, D.build_world(case["world"]))
            best = case
            if min(n, 2) == want:
                break
        best["form"] = "entity" if len(best["kinds"]) == 1 and rng.random() < 0.8 else "set_of"
        best["sel"] = sorted(best["sel"]) if best["form"] == "entity" else best["sel"]
        if rng.random() < 0.1:
            # predicate-form spelling: the(T(From(d), field=value)) - one variable, one or two field constraints
            k = rng.choice("PQ")
            w = D.random_world(rng, np_=(1, 4), nq=(1, 4))
            flds = [[f, rng.randint(1, 3)] for f in rng.sample(["a", "b"], rng.randint(1, 2))]
            cond = ["and"] + [["cmp", "==", ["v", 0, [["a", f]]], ["lit", v]] for f, v in flds] if len(flds) > 1 else \
                ["cmp", "==", ["v", 0, [["a", flds[0][0]]]], ["lit", flds[0][1]]]
            extra = None
            if rng.random() < 0.5:
                # further properties next to the term: the(t := T(From(d), f=v), t.g >= w)
                extra = ["cmp", rng.choice([">=", "==", "!=", "<"]), ["v", 0, [["a", rng.choice("ab")]]], ["lit", rng.randint(1, 3)]]
                cond = ["and", cond, extra]
            yield {"world": w, "kinds": [k], "cond": cond, "sel": [0], "form": "predform", "fields": flds, "extra": extra,
                   "ambient": rng.choice(["none", "none", "query", "rule"]), "caching": rng.random() < 0.7}
            continue
        if rng.random() < 0.08:
            # the supplied domain holds no instance of the variable's type (empty, or only objects of another type) while
            # instances of the type exist elsewhere: zero solutions
            best["domain_override"] = [rng.randrange(len(best["kinds"])), rng.choice(["empty", "other_type"])]
        elif set(best["kinds"]) <= {"P", "Q"} and rng.random() < 0.15:
            # no domain given: the variables range over the registry, where instances of a subclass and of a subclass of
            # the subclass are instances of the type as well
            best["registry"] = True
            for o in best["world"]["P"]:
                o["cls"] = rng.choice([0, 1, 2, 2])
        best["ambient"] = rng.choice(["none", "none", "query", "rule"])
        best["caching"] = rng.random() < 0.7
        best["earlier_query_on_the_same_variables"] = rng.random() < 0.3
        best["earlier_flavour"] = rng.choice(["negated", "join"])
        yield best


def _ctx(mode):
    from entity_query_language import symbolic_mode
    from entity_query_language.symbolic import rule_mode
    if mode == "query":
        return symbolic_mode()
    if mode == "rule":
        return rule_mode()
    return contextlib.nullcontext()


def _doms(case, world):
    doms = H.domains(world, case["kinds"])
    if case.get("domain_override"):
        i, how = case["domain_override"]
        other = "Q" if case["kinds"][i] != "Q" else "P"
        doms[i] = [] if how == "empty" else list(world[other])
    if case.get("registry"):
        doms = [None] * len(doms)
    return doms


def run(case, world):
    from entity_query_language import MultipleSolutionFound, NoSolutionFound
    from entity_query_language.cache_data import enable_caching, disable_caching
    m = H.labels_of(world)
    doms = _doms(case, world)
    (enable_caching if case["caching"] else disable_caching)()
    outs = []
    try:
        if case["form"] == "predform":
            from entity_query_language import symbolic_mode, the, From
            with symbolic_mode():
                term = D.CLASSES[case["kinds"][0]](From(doms[0]), **{f: v for f, v in case["fields"]})
                if case.get("extra"):
                    q = the(term, C.build(case["extra"], [term], 0, False))
                else:
                    q = the(term)
            xs = None
        else:
            pre_xs = None
            if case.get("earlier_query_on_the_same_variables") and not case.get("registry"):
                # the variables are long-lived: an earlier query over them used the NEGATED description (spelled afresh) and was
                # evaluated; this description is a new query over the same variable objects
                earlier = ["not", case["cond"]]
                kinds_ = case["kinds"]
                if case.get("earlier_flavour") == "join" and len(kinds_) >= 2:
                    # ... or a JOIN whose comparison has a plain variable as its first operand, after a conjunct that binds
                    # another variable: and_(c(x_k), x_i == x_j.p)  /  and_(c(x_k), x_i == x_j)
                    pq = [(i, j) for i, ki in enumerate(kinds_) for j, kj in enumerate(kinds_) if ki == "P" and kj == "Q"]
                    same = [(i, j) for i, ki in enumerate(kinds_) for j, kj in enumerate(kinds_) if i != j and ki == kj]
                    if pq or same:
                        i, j = (pq or same)[0]
                        rhs = ["v", j, [["a", "p"]]] if pq else ["v", j, []]
                        k_ = next(k for k in range(len(kinds_)) if k != i)
                        earlier = ["and", ["cmp", ">=", ["v", k_, [["a", "a"]]], ["lit", 0]], ["cmp", "==", ["v", i, []], rhs]]
                ctx_q, pre_xs = H.build_query(case["kinds"], doms, earlier, case["sel"], form=case["form"], quant="an",
                                              register=False)
                list(ctx_q.evaluate())
            q, xs = H.build_query(case["kinds"], doms, case["cond"], case["sel"], form=case["form"], quant="the", register=False,
                                  xs=pre_xs)
        for rep in range(3):
            with _ctx(case["ambient"]):
                try:
                    v = q.evaluate()
                    if case["form"] in ("entity", "predform"):
                        outs.append(["value", [H.lab(m, v)]])
                    else:
                        outs.append(["value", [H.lab(m, v[xs[i]]) for i in case["sel"]]])
                except MultipleSolutionFound:
                    outs.append(["multiple"])
                except NoSolutionFound:
                    outs.append(["none"])
                except Exception as e:  # any other exception is an outcome outside the three allowed ones
                    outs.append(["EXC", f"{type(e).__name__}: {e}"[:200]])
        form2 = "entity" if case["form"] == "predform" else case["form"]
        q2, xs2 = H.build_query(case["kinds"], doms, case["cond"], case["sel"], form=form2, quant="an", register=False)
        an_rows = H.rows_of(q2, xs2, case["sel"], m, form2)
    finally:
        enable_caching()
    return outs, an_rows


def check_case(case, ctx):
    if "ix" in case:
        return check_ix_the_case(case, ctx)
    world = D.build_world(case["world"])
    if case.get("scale"):
        ctx.cls("cls:scale:" + case["scale"])
    exp_rows = [] if case.get("domain_override") else multi.expected(case, world)
    if case.get("domain_override"):
        ctx.cls("cls:domain_without_instances_of_the_type")
    if case.get("registry"):
        ctx.cls("cls:no_domain_registry_with_subclass_instances")
    elif case.get("earlier_query_on_the_same_variables") and case["form"] != "predform":
        ctx.cls("cls:earlier_query_on_the_same_variables")
    n = len(exp_rows)
    ctx.cls("cls:n=0" if n == 0 else "cls:n=1" if n == 1 else "cls:n>=2")
    ctx.cls("cls:form:" + case["form"])
    if case.get("extra"):
        ctx.cls("cls:predform_with_further_properties")
    ctx.cls("cls:ambient:" + case["ambient"])
    ctx.cls("cls:caching_on" if case["caching"] else "cls:caching_off")
    ctx.cls(f"cls:nvars={len(case['kinds'])}")
    if "E" in case["kinds"]:
        ctx.cls("cls:equal_valued_distinct_objects")
        if n >= 2 and len({repr(sorted(vars(o).items(), key=str)) for o in world["E"]}) < len(world["E"]):
            ctx.cls("cls:solutions_equal_by_value")
    ctx.nontrivial()
    outs, an_rows = run(case, world)
    want = ["none"] if n == 0 else ["multiple"] if n >= 2 else ["value", list(exp_rows[0])]
    for rep, o in enumerate(outs):
        if o != want:
            ctx.fail("OUTCOME", {"evaluation": rep + 1, "solutions": n, "expected": want, "observed": o, "all_evaluations": outs})
            break
    else:
        if n == 1 and (len(an_rows) != 1 or list(an_rows[0]) != outs[0][1]):
            ctx.fail("DIFFERS_FROM_AN", {"the": outs[0], "an": an_rows[:4]})
    ctx.sample({"kinds": case["kinds"], "condition": case["cond"], "form": case["form"], "ambient": case["ambient"],
                "solutions": n, "outcomes": outs})
