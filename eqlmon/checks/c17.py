"""C17  concatenate yields a single value: all inner elements, in order.

Oracle: exactly one row whose value is [x for p in parents for x in p.items] (order, multiplicity, identity); in_(d, all),
contains(all, d), not_(in_(d, all)) over an outer variable d select exactly the (non-)members, in the order of d's domain.
"""
from __future__ import annotations

from .c16 import E, Par, gen_world, build_world

ID = "C17"
LEVEL = "exploration"
RULE = ("random parent domains as in C16 (inner lists of length 0-4, overlapping, repeated elements, all lists empty in some "
        "cases, scalar attribute in some) x variant {the single row | in_ | contains | not_(in_) | not_(contains) | or_(in_, cond) | not_(and_(cond, in_)) | and_(cond, in_) | the list selected through set_of, alone and next to its members | its first element compared | membership after an earlier condition has bound the outer variable}; the parent a plain variable, a query with or_ alternatives, or a variable whose given domain holds no parent; a fifth of the cases concatenate two levels (concatenate(flatten(p.items).subs)) with inner objects shared between parents; of an "
        "outer variable over the 5 element objects in a permuted order; caching on/off; every query is evaluated twice and a fresh concatenate over the same objects once more (the value must not drift, the user's lists must stay as they were). Non-trivial: the concatenation has "
        ">= 2 elements from >= 2 parents and, for membership variants, the answer is neither empty nor all. distinct by hash.")
RULE += " Size cases (every tier): concatenations of 80-200 run-time strings or numbers above the small-int cache over 25-45 parents, 60-600 candidates whose keys are equal to (not identical with) the elements, in_ and not_(in_), alone and joined with three tiers; evaluated twice."
LEVEL_TEXT = ("Reference-model monitoring: the one-row result is compared element by element (identity, order, multiplicity) "
              "with the flat list built in plain Python; membership queries are compared as ordered lists of identities.")
LEVEL_NOTE = "Trusted: the oracle (a list comprehension)."
TECHNIQUE = "runtime monitoring: differential oracle on the concatenated value (identity, order, multiplicity) and on membership selections"
ASSUMPTIONS = ["element objects are truthy"]


def plan(tier, seed):
    n = 250 if tier == "quick" else 3000
    specs_ = [{"n": n, "sub": i} for i in range(16)]
    specs_ += [{"kind": "ix", "n": 40 if tier == "quick" else 400, "sub": 900 + i} for i in range(16)]
    specs_ += [{"kind": "bigconc", "n": 3 if tier == "quick" else 14, "sub": 1400 + i} for i in range(16)]
    return specs_


def floors(tier):
    return {"re:cls:scale:concatenation_of_80_to_200_elements:.*": 140, "cls:feature_interaction_query": 300, "distinct_nontrivial": 300, "cls:variant:one": 500, "cls:variant:in": 300, "cls:variant:contains": 300,
            "cls:variant:notin": 300, "cls:variant:notcontains": 200, "cls:variant:or_in": 150, "cls:variant:not_and_in": 150,
            "cls:variant:and_in": 150, "cls:variant:one_setof": 100, "cls:variant:in_with_list": 100, "cls:variant:index0": 100, "cls:variant:two_lists": 100, "cls:variant:two_tests_same_parent": 100, "cls:variant:parent_bound_first": 100, "cls:preceded_by_an_abandoned_evaluation": 1000,
            "cls:inner_collections_are_one_shot_iterators": 150, "cls:concatenate_of_flatten_over_lists_of_lists": 100, "cls:variant:prebound_in": 150, "cls:variant:prebound_notin": 100,
            "cls:parent_is_a_query_with_alternatives": 300, "cls:parent_domain_without_parents": 100, "cls:two_level_concatenate": 300, "cls:plain_scalar_values": 100, "cls:all_empty": 30, "cls:scalar": 100,
            "re:Concatenate(@.*)?\\.enter": 2000}


def _big_classes():
    """classes of the big-concatenation workload (made once per process)"""
    if not _BIG:
        from dataclasses import dataclass, field
        from typing import Any, List
        from entity_query_language import symbol

        @symbol
        @dataclass(eq=False)
        class Shelf:
            name: str = ""
            items: List[Any] = field(default_factory=list)

        @symbol
        @dataclass(eq=False)
        class Cand:
            key: Any = None
            level: int = 0

        @symbol
        @dataclass(eq=False)
        class Tier:
            level: int = 0
        _BIG.update({"Shelf": Shelf, "Cand": Cand, "Tier": Tier})
    return _BIG["Shelf"], _BIG["Cand"], _BIG["Tier"]


_BIG = {}


def check_bigconc_case(case, ctx):
    """SIZE: a concatenation of 80-200 elements (25-45 parents), whose elements are EQUAL to the candidates' keys without being the
    same objects (strings built at run time, numbers above the small-int cache); hundreds of candidates, optionally joined with
    three tiers so that the membership test is asked again for the same candidate; evaluated twice"""
    from entity_query_language import symbolic_mode, an, entity, set_of, let, in_, not_, and_
    from entity_query_language.entity import concatenate
    from entity_query_language.cache_data import enable_caching, disable_caching
    Shelf, Cand, Tier = _big_classes()
    ctx.cls("cls:scale:concatenation_of_80_to_200_elements:" + case["shape"])
    mk = (lambda n: "key-%d" % n) if case["strings"] else (lambda n: 1000 + n)
    shelves = [Shelf("s%d" % i, [mk(n) for n in items]) for i, items in enumerate(case["shelves"])]
    cands = [Cand(mk(n), lv) for n, lv in case["cands"]]
    tiers = [Tier(lv) for lv in case["tiers"]]
    stocked = {n for items in case["shelves"] for n in items}
    neg = case["shape"].startswith("not")
    ok = lambda n: (n in stocked) != neg
    if case["shape"].endswith("tiers"):
        exp = sorted((ti, ci) for ti, t in enumerate(tiers) for ci, (n, lv) in enumerate(case["cands"]) if t.level <= lv and ok(n))
    else:
        exp = sorted(ci for ci, (n, lv) in enumerate(case["cands"]) if ok(n))
    if 0 < len(exp):
        ctx.nontrivial()
    (enable_caching if case["caching"] else disable_caching)()
    try:
        with symbolic_mode():
            s = let(Shelf, shelves)
            c = let(Cand, cands)
            test = in_(c.key, concatenate(s.items))
            if neg:
                test = not_(test)
            if case["shape"].endswith("tiers"):
                t = let(Tier, tiers)
                q = an(set_of([t, c], and_(t.level <= c.level, test)))
            else:
                q = an(entity(c, test))
        cidx = {id(o): i for i, o in enumerate(cands)}
        tidx = {id(o): i for i, o in enumerate(tiers)}
        for rnd in range(2):
            if case["shape"].endswith("tiers"):
                got = sorted((tidx[id(r[t])], cidx[id(r[c])]) for r in q.evaluate())
            else:
                got = sorted(cidx[id(r)] for r in q.evaluate())
            if got != exp:
                ctx.fail("BIGCONC:" + ("missing" if set(exp) - set(got) else "") + ("+extra" if set(got) - set(exp) else ""),
                         {"shape": case["shape"], "evaluation": rnd + 1, "n_expected": len(exp), "n_observed": len(got),
                          "elements": sum(len(x) for x in case["shelves"])})
                return
    except Exception as e:
        import traceback
        ctx.fail("EXC", f"bigconc: {type(e).__name__}: {e}\n{traceback.format_exc()[-500:]}")
    finally:
        enable_caching()
    ctx.sample({"bigconc": case["shape"], "elements": sum(len(x) for x in case["shelves"]), "expected": len(exp)})


def cases(spec, ctx):
    if spec.get("kind") == "bigconc":
        for i in range(spec["n"]):
            rng = ctx.rng(spec["sub"], i)
            shape = ["in", "not_in", "in_tiers", "not_in_tiers"][(i + spec["sub"]) % 4]
            nshelves = rng.randint(25, 45)
            ncand = rng.randint(250, 600) if shape.endswith("tiers") else rng.randint(60, 160)
            yield {"bigconc": True, "shape": shape, "strings": rng.random() < 0.5,
                   "shelves": [rng.sample(range(400), rng.randint(2, 5)) for _ in range(nshelves)],
                   "cands": [[rng.randrange(400), rng.randint(1, 3)] for _ in range(ncand)],
                   "tiers": rng.sample([1, 2, 3], 3), "caching": rng.random() < 0.85}
        return
    if spec.get("kind") == "ix":
        from .. import ix
        for i in range(spec["n"]):
            yield {"ix": ix.gen_case_for(ctx.rng(spec["sub"], i), ID)}
        return
    for i in range(spec["n"]):
        rng = ctx.rng(spec["sub"], i)
        w = gen_world(rng)
        if rng.random() < 0.05:
            for p in w["parents"]:
                p["items"] = []
        order = list(range(5))
        rng.shuffle(order)
        case = {"world": w, "variant": rng.choice(["one", "one", "in", "contains", "notin", "notcontains", "or_in", "not_and_in", "and_in",
                                                   "one_setof", "in_with_list", "index0", "two_lists", "two_tests_same_parent", "parent_bound_first"]),
                "order": order, "scalar": rng.random() < 0.1, "caching": rng.random() < 0.7, "thr": rng.randint(1, 4),
                "take_first": rng.choice([0, 0, 1, 2]), "one_shot_items": rng.random() < 0.12}
        if rng.random() < 0.08:
            # scalar inner values, falsy ones included: each counts as one element of the concatenation
            for p_ in w["parents"]:
                p_["one"] = ["s", rng.choice([0, None, "", False, 7, "z"])]
            case["scalar"], case["variant"], case["plain_scalar"] = True, "one", True
        elif rng.random() < 0.2:
            # two levels: concatenate(flatten(p.items).subs); inner objects are shared between parents
            case["nested"] = [[rng.randrange(5) for _ in range(rng.randint(0, 3))] for _ in range(5)]
            case["scalar"] = False
            case["variant"] = rng.choice(["one", "one", "in", "notin"])
        elif rng.random() < 0.1:
            # concatenate(flatten(p.items)) where the items are themselves lists: one fully flat list
            case["nested_lists"] = [[[rng.randrange(5) for _ in range(rng.randint(0, 3))] for _ in range(rng.randint(0, 3))]
                                    for _ in w["parents"]]
            case["scalar"] = False
            case["variant"] = rng.choice(["one", "one", "in", "notin"])
        else:
            r = rng.random()
            if r < 0.2:
                # the parent is itself a query with alternatives: only the parents it selects contribute
                case["parent_query"] = {"k1": rng.randint(1, 5), "k2": rng.randint(1, 4)}
                case["variant"] = rng.choice(["one", "in", "notin", "and_in", "prebound_in", "prebound_in", "prebound_notin"])
            elif r < 0.27:
                # the given parent domain holds no parent at all (parents exist elsewhere in the process): one row, []
                case["parent_domain"] = rng.choice(["empty", "other_type"])
            elif r < 0.35:
                case["variant"] = rng.choice(["prebound_in", "prebound_notin"])
        yield case


class _ReprLabels(dict):
    """labels for plain scalar elements: their repr"""

    def get(self, key, default=None):
        return default


def check_case(case, ctx):
    if "bigconc" in case:
        return check_bigconc_case(case, ctx)
    if "ix" in case:
        from .. import ix
        return ix.check(case["ix"], ctx)
    from entity_query_language import symbolic_mode, an, entity, let, in_, contains, not_, or_, and_
    from entity_query_language.entity import concatenate, flatten
    from entity_query_language.cache_data import enable_caching, disable_caching
    es, ps = build_world(case["world"])
    if case.get("nested"):
        from .c16 import E as _E
        subs_pool = [_E(100 + i) for i in range(5)]
        for e_, idxs in zip(es, case["nested"]):
            e_.subs = [subs_pool[i] for i in idxs]
        flat = [s_ for p in ps for x in p.items for s_ in x.subs]
        es = subs_pool          # the outer variable and the labels range over the second-level objects
        ctx.cls("cls:two_level_concatenate")
    elif case.get("nested_lists"):
        for p_, ll in zip(ps, case["nested_lists"]):
            p_.items = [[es[i] for i in inner] for inner in ll]
        flat = [x for p_ in ps for inner in p_.items for x in inner]
        ctx.cls("cls:concatenate_of_flatten_over_lists_of_lists")
    else:
        flat = [p.one for p in ps] if case["scalar"] else [x for p in ps for x in p.items]
    pq = case.get("parent_query")
    if pq:
        ctx.cls("cls:parent_is_a_query_with_alternatives")
        flat = [x for p in ps if (p.k == pq["k1"] or p.k > pq["k2"]) for x in (([p.one] if case["scalar"] else p.items))]
    pdom = ps
    if case.get("parent_domain"):
        ctx.cls("cls:parent_domain_without_parents")
        pdom = [] if case["parent_domain"] == "empty" else list(es)
        flat = []
    dom = [es[i] for i in case["order"]]
    v = case["variant"]
    if v == "index0" and not flat:
        v = "in"        # [][0] raises in plain Python as well
    ctx.cls("cls:variant:" + v)
    if not flat:
        ctx.cls("cls:all_empty")
    if case["scalar"]:
        ctx.cls("cls:scalar")
    if case.get("one_shot_items") and not case["scalar"] and not case.get("nested") and not case.get("nested_lists"):
        ctx.cls("cls:inner_collections_are_one_shot_iterators")
    lab = {id(e): f"E{i}" for i, e in enumerate(es)}
    (enable_caching if case["caching"] else disable_caching)()
    try:
        with symbolic_mode():
            p = let(Par, pdom)
            if pq:
                p = an(entity(p, or_(p.k == pq["k1"], p.k > pq["k2"])))
            if case.get("nested"):
                allv = concatenate(flatten(p.items).subs)
            elif case.get("nested_lists"):
                allv = concatenate(flatten(p.items))
            else:
                items_attr = "items_once" if (case.get("one_shot_items") and not case["scalar"]) else "items"
                allv = concatenate(p.one) if case["scalar"] else concatenate(getattr(p, items_attr))
            thr = case.get("thr", 2)
            if v == "one":
                q = an(entity(allv))
            elif v == "one_setof":
                from entity_query_language import set_of
                q = an(set_of([allv]))
            elif v == "two_lists":
                # two concatenations (over two parent variables) selected together: one row holding both lists
                from entity_query_language import set_of
                p_b = let(Par, list(reversed(pdom)))
                allv_b = concatenate(p_b.one) if case["scalar"] else concatenate(p_b.items)
                q = an(set_of([allv, allv_b]))
            else:
                d = let(E, dom)
                cond = {"in": lambda: in_(d, allv), "contains": lambda: contains(allv, d), "notin": lambda: not_(in_(d, allv)),
                        "notcontains": lambda: not_(contains(allv, d)),
                        "or_in": lambda: or_(in_(d, allv), d.n == thr),
                        "not_and_in": lambda: not_(and_(d.n > thr, in_(d, allv))),
                        "and_in": lambda: and_(d.n > thr, in_(d, allv)),
                        "prebound_in": lambda: in_(d, allv), "prebound_notin": lambda: not_(in_(d, allv)),
                        "in_with_list": lambda: in_(d, allv), "index0": lambda: d == allv[0],
                        # two concatenations over the SAME parent variable in one query
                        "two_tests_same_parent": lambda: and_(in_(d, allv), in_(d, concatenate(p.one))),
                        # the parent is bound by an earlier conjunct: the list is that parent's own
                        "parent_bound_first": lambda: in_(d, allv)}[v]()
                if v == "parent_bound_first":
                    q = an(entity(d, p.k > thr - 1, cond))
                elif v == "in_with_list":         # the combined list selected next to the member
                    from entity_query_language import set_of
                    q = an(set_of([d, allv], cond))
                elif v.startswith("prebound"):    # the outer variable is bound by an earlier condition
                    q = an(entity(d, d.n != thr, cond))
                else:
                    q = an(entity(d, cond))
        snapshot = [list(p_.items) for p_ in ps]
        try:
            if case.get("take_first"):      # an earlier evaluation that is left after a result or two
                it0 = iter(q.evaluate())
                for _ in range(case["take_first"]):
                    if next(it0, None) is None:
                        break
                it0.close()
                ctx.cls("cls:preceded_by_an_abandoned_evaluation")
            got = list(q.evaluate())
            got2 = list(q.evaluate())       # the value is the same list on every evaluation
            with symbolic_mode():           # ... and for a fresh query over the same objects
                p3 = let(Par, pdom)
                if pq:
                    p3 = an(entity(p3, or_(p3.k == pq["k1"], p3.k > pq["k2"])))
                q3 = an(entity(concatenate(flatten(p3.items).subs) if case.get("nested") else
                               concatenate(flatten(p3.items)) if case.get("nested_lists") else
                               concatenate(p3.one) if case["scalar"] else concatenate(p3.items)))
            got3 = list(q3.evaluate())
        except Exception as e:
            import traceback
            ctx.fail("EXC", f"{type(e).__name__}: {e}\n{traceback.format_exc()[-700:]}")
            return
    finally:
        enable_caching()
    lists_next_to_members = None
    if v == "two_lists":
        second = [r[allv_b] for r in got] + [r[allv_b] for r in got2]
        pars_b = [p_ for p_ in reversed(pdom) if isinstance(p_, Par)]
        flat_b = [p_.one for p_ in pars_b] if case["scalar"] else [x for p_ in pars_b for x in p_.items]
        for l_ in second:
            if not isinstance(l_, (list, tuple)) or len(l_) != len(flat_b) or any(a is not b for a, b in zip(l_, flat_b)):
                ctx.fail("CONCATENATE:second_list_of_two", {"expected_len": len(flat_b), "observed": repr(l_)[:200]})
                return
        got, got2 = [r[allv] for r in got], [r[allv] for r in got2]
        v = "one"
    if v == "one_setof":
        got, got2 = [r[allv] for r in got], [r[allv] for r in got2]
        v = "one"
    elif v == "in_with_list":
        lists_next_to_members = [r[allv] for r in got] + [r[allv] for r in got2]
        got, got2 = [r[d] for r in got], [r[d] for r in got2]
    mutated = [i for i, p_ in enumerate(ps) if len(p_.items) != len(snapshot[i]) or any(a is not b for a, b in zip(p_.items, snapshot[i]))]
    if case.get("plain_scalar"):
        ctx.cls("cls:plain_scalar_values")
        lab = _ReprLabels()
    if v == "one":
        exp = [[lab[id(x)] if not case.get("plain_scalar") else repr(x) for x in flat]]
        obs = [[(lab.get(id(x), f"?{type(x).__name__}") if not case.get("plain_scalar") else repr(x)) for x in g]
               if isinstance(g, (list, tuple)) else f"?{type(g).__name__}" for g in got]
        nontrivial = len(flat) >= 2 and len([p for p in ps if (case["scalar"] or p.items)]) >= 2
    else:
        member = lambda x: any(x is y for y in flat)
        thr = case.get("thr", 2)
        sel = {"in": member, "contains": member, "notin": lambda x: not member(x), "notcontains": lambda x: not member(x),
               "or_in": lambda x: member(x) or x.n == thr, "not_and_in": lambda x: not (x.n > thr and member(x)),
               "and_in": lambda x: x.n > thr and member(x), "in_with_list": member,
               "parent_bound_first": lambda x: any(x is y for p_ in pdom if isinstance(p_, Par) and p_.k > thr - 1
                                                   and (not pq or p_.k == pq["k1"] or p_.k > pq["k2"])
                                                   for y in ([p_.one] if case["scalar"] else p_.items)),
               "two_tests_same_parent": lambda x: member(x) and any(x is p_.one for p_ in pdom if isinstance(p_, Par)
                                                                   and (not pq or p_.k == pq["k1"] or p_.k > pq["k2"])),
               "index0": lambda x: bool(flat) and x is flat[0], "prebound_in": lambda x: x.n != thr and member(x),
               "prebound_notin": lambda x: x.n != thr and not member(x)}[v]
        exp = [lab[id(x)] for x in dom if sel(x)]
        obs = [lab.get(id(x), f"?{type(x).__name__}") for x in got]
        if v == "parent_bound_first":
            # the parent is bound and not selected: one row per (parent, member) pair - the SET of members is what is specified
            exp, obs = sorted(set(exp)), sorted(set(obs))
        nontrivial = 0 < len(exp) < len(dom)
    if nontrivial:
        ctx.nontrivial()
    if lists_next_to_members is not None:
        for l_ in lists_next_to_members:
            if not isinstance(l_, (list, tuple)) or len(l_) != len(flat) or any(a is not b for a, b in zip(l_, flat)):
                ctx.fail("CONCATENATE:list_selected_next_to_member", {"expected_len": len(flat), "observed": repr(l_)[:200]})
                return
    if obs != exp:
        ctx.fail("CONCATENATE:" + v, {"expected": exp, "observed": obs})
    else:
        def enc(rows):
            if v == "one":
                return [[lab.get(id(x), f"?{type(x).__name__}") for x in g] if isinstance(g, (list, tuple)) else f"?{type(g).__name__}" for g in rows]
            return [lab.get(id(x), f"?{type(x).__name__}") for x in rows]
        if case.get("plain_scalar"):
            if [[repr(x) for x in g] if isinstance(g, (list, tuple)) else "?" for g in got2] != exp or \
                    [[repr(x) for x in g] if isinstance(g, (list, tuple)) else "?" for g in got3] != exp:
                ctx.fail("CONCATENATE:one:re-evaluation", {"expected": exp})
            ctx.sample({"parents": case["world"]["parents"], "variant": v, "expected": exp, "observed": obs})
            return
        flat_exp = [[lab[id(x)] for x in flat]]
        if (sorted(set(enc(got2))) if v == "parent_bound_first" else enc(got2)) != exp:
            ctx.fail("CONCATENATE:" + v + ":second_evaluation", {"expected": exp, "observed": enc(got2), "user_lists_modified": mutated})
        elif [[lab.get(id(x), "?") for x in g] if isinstance(g, (list, tuple)) else "?" for g in got3] != flat_exp:
            ctx.fail("CONCATENATE:fresh_query_over_same_objects", {"expected": flat_exp, "user_lists_modified": mutated,
                                                                   "observed": [[lab.get(id(x), "?") for x in g] if isinstance(g, (list, tuple)) else "?" for g in got3]})
        elif mutated:
            ctx.count("user_list_modified_but_values_right")     # C04's business, evidence only here
    ctx.sample({"parents": case["world"]["parents"], "variant": v, "outer_order": case["order"], "expected": exp, "observed": obs})
