"""C08  Symbolic mode is confined to its block.

After EVERY step of a random history over { enter/leave symbolic_mode(), rule_mode(), rule_mode(query),
symbolic_mode(query), `with query:`; leave by an exception; create a result iterator; next; close; drop the last
reference + gc; exhaust } the observable state is compared with a reference stack machine for which iterator
operations are no-ops:  mode (in_symbolic_mode(), Query/Rule), depth of the expression-context stack, and behaviour:
constructing a @symbol class gives a real instance exactly outside blocks, a @predicate call executes exactly outside
blocks, `var.attr == 1` raises AttributeError exactly outside blocks.  A fresh thread and an empty contextvars.Context
must always see "not symbolic".
"""
from __future__ import annotations

import contextvars
import gc
import threading
from dataclasses import dataclass

from entity_query_language import symbol, predicate

ID = "C08"
LEVEL = "exploration"
RULE = ("random histories of 6-16 steps over 15 operation kinds (incl. re-entering a query object that is already open and evaluating the(...) / a whole an(...) at the current nesting, an evaluation in which user code raises, a the(...) over a sub-query that raises MultipleSolutionFound) with at most 3 live result iterators and nesting depth "
        "<= 4; an observation (mode, expression-stack depth, behaviour probes (constructor, @predicate call incl. a defaulted parameter given positionally, operators on a variable, a generator domain whose producer constructs @symbol objects); every third step also a fresh "
        "thread and an empty Context) after every step, compared with the reference stack machine. Non-trivial: the "
        "history advances, closes, drops or exhausts an iterator while the nesting depth differs from the depth at "
        "which that iterator was created or last advanced. distinct by structural hash of the operation list.")
RULE += " Size cases (every tier): blocks nested four or five deep in which the same three or four long-lived query objects are opened again under another outermost block; evaluations handing out 150-320 results inside whatever blocks are open, each row computed by user code that constructs a @symbol object."
RULE += ' Exceptional paths (every tier): iterators over flatten(x.parts) where parts is a generator property whose finally clause constructs a @symbol object (closed, dropped or exhausted at any nesting: every object built by a clean-up clause must be a real instance), and constrained terms whose construction raises (a value without a truth value) inside whatever block is open.'
LEVEL_TEXT = ("Online trace checker: the observable mode state after every step of generated interleavings of block "
              "entry/exit (incl. exceptional exit) and result-iterator life-cycle operations is compared with a 6-line "
              "reference stack machine; the only concurrency the library has (suspended generators in one thread) is "
              "enumerated as schedules of those life-cycle steps.")
LEVEL_NOTE = ("Trusted: the reference machine. Real multi-threaded use beyond the isolation probe is not explored. The "
              "expression-context stack is compared by depth, not content.")
TECHNIQUE = "runtime monitoring: online trace checking of mode/stack state against a reference stack machine over generated interleavings of block and iterator life-cycle steps"
ASSUMPTIONS = ["blocks are left in LIFO order (a `with` statement cannot do otherwise)"]


@symbol
@dataclass(eq=False)
class B2:
    """built by B.twin() while a query is evaluated (user code reached through a method call, no predicate involved)"""
    n: int


@symbol
@dataclass(eq=False)
class B:
    n: int

    def twin(self):
        return B2(self.n)

    @property
    def parts(self):
        """a generator with a clean-up clause that constructs a @symbol object: user code that the library runs while it
        finalises an abandoned evaluation"""
        try:
            for k in range(3):
                yield 10 * self.n + k
        finally:
            CLEANUPS.append(B2(self.n))


CLEANUPS = []


class NoTruth:
    """a value without a truth value (like a numpy array): a term constrained by it fails while it is being built"""

    def __bool__(self):
        raise ValueError("no truth value")


@predicate
def pos(x):
    return x.n > 0


@predicate
def makes_real_instance(x):
    """user code that constructs a @symbol object while a result is computed: true iff it got a real instance"""
    return type(B(x.n)) is B


@predicate
def posk(x, k=0):
    """a parameter with a default, passed positionally, by keyword or not at all"""
    return x.n > k


@predicate
def posq(x):
    """builds a query of its own and evaluates it inside that query's own block, while the caller's result is computed"""
    from entity_query_language import symbolic_mode, let, an, entity
    with symbolic_mode():
        y = let(B, [x])
        inner = an(entity(y, y.n > 0))
    with inner:
        return any(True for _ in inner.evaluate())


class Boom(Exception):
    pass


@predicate
def pos_or_boom(x):
    """user code that raises in the middle of an evaluation (for the element with n == 3)"""
    if x.n == 3:
        raise Boom()
    return x.n > 0


OPS_ENTER = ["enter_q", "enter_r", "enter_rq", "enter_qq", "with_query", "reenter_open_query", "with_pooled"]


def plan(tier, seed):
    n = 300 if tier == "quick" else 5000
    return [{"n": n, "sub": i} for i in range(16)]


def floors(tier):
    return {"distinct_nontrivial": 800, "observations": 20000, "op:enter_q": 500, "op:enter_r": 500, "op:enter_rq": 300,
            "op:enter_qq": 300, "op:with_query": 300, "op:leave": 1000, "op:raise_leave": 300, "op:mkit": 1000,
            "op:next": 1000, "op:close": 300, "op:drop": 300, "op:exhaust": 300, "op:the_eval": 500, "op:an_list": 500, "op:an_raise": 300, "op:the_multi_sub": 300, "op:an_plain_method": 300, "op:block_term_then_rule": 300,
            "op:reenter_open_query": 300, "op:an_many_rows": 200, "op:mkit_flat": 300, "cleanup_probes": 200, "cls:term_build_raised_inside_a_block": 500, "cls:blocks_nested_four_or_five_deep_reopened_under_another_outer_block": 300, "thread_probes": 3000, "generator_domain_probes": 300,
            "cls:iterator_op_at_other_depth": 800}


def cases(spec, ctx):
    for i in range(spec["n"]):
        rng = ctx.rng(spec["sub"], i)
        ops = []
        depth, live = 0, 0
        if i % 20 == 13:
            # SIZE: blocks nested four or five deep over a history of 20-30 operations, the same three or four (long-lived) query
            # objects opened again under ANOTHER outermost block, results computed in the innermost block both times
            k = rng.choice([3, 3, 4])
            for outer in rng.sample(["enter_rq", "enter_qq", "with_query", "enter_rq"], 2):
                ops.append([outer])
                ops += [["with_pooled", j] for j in range(k)]
                ops += [[rng.choice(["an_list", "the_eval", "an_plain_method"])] for _ in range(rng.randint(1, 2))]
                ops += [["leave"]] * k
                ops += [[rng.choice(["an_list", "block_term_then_rule"])]]
                ops.append(["leave"])
            yield {"ops": ops, "deep": True}
            continue
        for _ in range(rng.randint(6, 16)):
            extra_ops = ["the_eval", "an_list", "an_raise", "the_multi_sub", "an_plain_method", "block_term_then_rule", "term_build_raises"]
            if rng.random() < 0.04:
                extra_ops = extra_ops + ["an_many_rows"] * 6
            choices = ["mkit"] + extra_ops if live < 3 else list(extra_ops)
            if depth < 4:
                choices += [o_ for o_ in OPS_ENTER if o_ != "with_pooled"]
            if depth:
                choices += ["leave", "leave", "leave", "raise_leave"]
            if live:
                choices += ["next", "next", "next", "close", "drop", "exhaust"]
            op = rng.choice(choices)
            if op in OPS_ENTER:
                depth += 1
                ops.append([op])
            elif op in ("leave", "raise_leave"):
                depth -= 1
                ops.append([op])
            elif op == "mkit":
                live += 1
                ops.append([op] if rng.random() < 0.7 else ["mkit_flat"])
            elif op in ("the_eval", "an_list", "an_raise", "the_multi_sub", "an_plain_method", "block_term_then_rule", "an_many_rows", "term_build_raises"):
                ops.append([op])
            else:
                idx = rng.randrange(live)
                ops.append([op, idx])
                if op != "next":
                    live -= 1
        yield {"ops": ops}


def check_case(case, ctx):
    from entity_query_language import symbolic_mode, let, an, the, entity
    from entity_query_language.symbolic import _symbolic_mode, rule_mode, SymbolicExpression, in_symbolic_mode
    from entity_query_language.enums import EQLMode
    bs = [B(1), B(2), B(3), B(4)]

    def mkq():
        with symbolic_mode():
            x = let(B, bs)
            return an(entity(x, x.n > 0, pos(x), posq(x)))

    # one variable whose attribute was spelled inside a block: spelling it again outside every block is still rejected
    with symbolic_mode():
        pv = let(B, bs)
        pv_n = pv.n

    stack = []   # reference machine: (mode or None, pushes_expression_stack, context manager)
    tops = []    # for every open block the current expression right after it was entered (None if it pushes none)
    its = []     # live iterators: [iterator, depth at creation / last advance]

    def ref_mode():
        for m, _, _ in reversed(stack):
            if m is not None:
                return m
        return None

    def ref_depth():
        return sum(1 for _, p, _ in stack if p)

    seen_other_depth = [False]

    def observe(step, op):
        ctx.count("observations")
        rm = ref_mode()
        # public observation first: in_symbolic_mode() / in_symbolic_mode(mode)
        if in_symbolic_mode() != (rm is not None) or (rm is not None and not in_symbolic_mode(rm)):
            return {"what": "MODE", "observed": {"in_symbolic_mode": in_symbolic_mode()}, "expected": repr(rm)}
        m = _symbolic_mode.get()
        if m != rm:
            return {"what": "MODE", "observed": repr(m), "expected": repr(rm)}
        d = len(SymbolicExpression._symbolic_expression_stack_)
        cur = SymbolicExpression._current_parent_()
        if d != ref_depth() or (cur is None) != (ref_depth() == 0):
            return {"what": "EXPRESSION_STACK_DEPTH", "observed": d, "expected": ref_depth()}
        want_top = next((t for t in reversed(tops) if t is not None), None)
        if cur is not want_top:
            return {"what": "CURRENT_EXPRESSION_IS_NOT_THE_INNERMOST_BLOCKS", "observed": repr(cur)[:80], "expected": repr(want_top)[:80]}
        try:
            a_ = pv.n
            spelled = True
        except AttributeError:
            spelled = False
        if spelled != (rm is not None) or hasattr(pv, "n") != (rm is not None):
            return {"what": "ATTRIBUTE_OF_A_VARIABLE_USED_BEFORE_IN_A_BLOCK", "accepted": spelled, "expected_mode": repr(rm)}
        o = B(9)
        if (rm is None) != (type(o) is B):
            return {"what": "CONSTRUCTOR", "observed": type(o).__name__, "expected_mode": repr(rm)}
        p = pos(bs[0])
        if (rm is None) != (p is True):
            return {"what": "PREDICATE_CALL", "observed": type(p).__name__, "expected_mode": repr(rm)}
        # outside blocks a decorated function is the function: a defaulted parameter given positionally / by keyword / not
        pk = [posk(bs[0], 10), posk(bs[0], k=10), posk(bs[0])]
        if rm is None and pk != [False, False, True]:
            return {"what": "PREDICATE_CALL_WITH_DEFAULTED_PARAMETER", "observed": repr(pk), "expected": "[False, False, True]"}
        if rm is not None and any(not isinstance(x_, SymbolicExpression) for x_ in pk):
            return {"what": "PREDICATE_CALL_WITH_DEFAULTED_PARAMETER", "observed": repr(pk), "expected_mode": repr(rm)}
        if rm is None and step % 4 == 1:
            # a lazily produced domain whose producer constructs @symbol objects: whenever let() or the evaluation drives it
            # outside every block, the producer's constructor calls are ordinary constructor calls
            ctx.count("generator_domain_probes")
            made = []

            def produce():
                for i_ in range(2):
                    o_ = B(20 + i_)
                    made.append(o_)
                    yield o_
            gv = let(B, produce())
            with symbolic_mode():
                gq = an(entity(gv))
            res = list(gq.evaluate())
            if [type(o_).__name__ for o_ in made] != ["B", "B"] or [getattr(o_, "n", None) for o_ in res] != [20, 21] or \
                    any(type(o_) is not B for o_ in res):
                return {"what": "CONSTRUCTOR_IN_DOMAIN_PRODUCER", "made": [type(o_).__name__ for o_ in made],
                        "results": [type(o_).__name__ for o_ in res]}
            if _symbolic_mode.get() is not None:
                return {"what": "MODE_AFTER_GENERATOR_DOMAIN", "observed": repr(_symbolic_mode.get())}
        v = let(B, bs)   # itself a nested block entered and left
        if _symbolic_mode.get() != rm:
            return {"what": "MODE_AFTER_LET", "observed": repr(_symbolic_mode.get()), "expected": repr(rm)}
        try:
            v.n == 1
            ok = True
        except AttributeError:
            ok = False
        if ok != (rm is not None):
            return {"what": "OPERATORS_ON_VARIABLE", "accepted": ok, "expected_mode": repr(rm)}
        v2 = let(B, bs)
        for opname, opf in (("==", lambda: v == 1), ("<", lambda: v < 1), ("[]", lambda: v[0]), ("()", lambda: v()),
                            ("&", lambda: v & v2), ("|", lambda: v | v2), ("~", lambda: ~v2)):
            try:
                opf()
                ok = True
            except (AttributeError, TypeError):
                ok = False
            if ok != (rm is not None):
                return {"what": "OPERATORS_ON_VARIABLE", "operator": opname, "accepted": ok, "expected_mode": repr(rm)}
        if step % 3 == 0:
            ctx.count("thread_probes")
            seen = {}

            def probe():
                seen["mode"] = _symbolic_mode.get()
                seen["ctor"] = type(B(7)).__name__

            t = threading.Thread(target=probe)
            t.start()
            t.join()
            if seen.get("mode") is not None or seen.get("ctor") != "B":
                return {"what": "OTHER_THREAD_SEES_SYMBOLIC_MODE", "observed": repr(seen)}
            seen.clear()
            contextvars.Context().run(probe)
            if seen.get("mode") is not None or seen.get("ctor") != "B":
                return {"what": "EMPTY_CONTEXT_SEES_SYMBOLIC_MODE", "observed": repr(seen)}
        return None

    fail = None
    pool_qs = []
    many_pool = [B(k_ + 1) for k_ in range(340)] if any(o[0] == "an_many_rows" for o in case["ops"]) else []     # (built outside every block)
    if case.get("deep"):
        ctx.cls("cls:blocks_nested_four_or_five_deep_reopened_under_another_outer_block")
    try:
        for step, op in enumerate(case["ops"]):
            name = op[0]
            ctx.cls("op:" + name)
            if name == "enter_q":
                cm = symbolic_mode()
                cm.__enter__()
                stack.append((EQLMode.Query, False, cm))
            elif name == "enter_r":
                cm = rule_mode()
                cm.__enter__()
                stack.append((EQLMode.Rule, False, cm))
            elif name == "enter_rq":
                cm = rule_mode(mkq())
                cm.__enter__()
                stack.append((EQLMode.Rule, True, cm))
            elif name == "enter_qq":
                cm = symbolic_mode(mkq())
                cm.__enter__()
                stack.append((EQLMode.Query, True, cm))
            elif name == "with_query":
                cm = mkq()
                cm.__enter__()
                stack.append((None, True, cm))
            elif name == "with_pooled":
                # one of a few long-lived query objects of the session, opened as a plain `with query:` block (again, if it was
                # open and left before)
                while len(pool_qs) <= op[1]:
                    pool_qs.append(mkq())
                cm = pool_qs[op[1]]
                cm.__enter__()
                stack.append((None, True, cm))
            elif name == "reenter_open_query":
                # the SAME expression object entered again while it is already open (a helper that opens `with query:`
                # or rule_mode(query) for a query its caller has open)
                open_q = [c for _, p, c in stack if p and hasattr(c, "_id_")]
                cm = open_q[-1] if open_q else mkq()
                if open_q:
                    ctx.cls("cls:same_query_object_entered_twice")
                cm.__enter__()
                stack.append((None, True, cm))
            elif name == "the_eval":
                with symbolic_mode():
                    x1 = let(B, bs)
                    tq = the(entity(x1, x1.n == 2, pos(x1)))
                o = tq.evaluate()
                if type(o) is not B:
                    fail = {"what": "RESULT_NOT_A_REAL_INSTANCE", "observed": type(o).__name__}
            elif name == "an_list":
                for o in mkq().evaluate():
                    if type(o) is not B:
                        fail = {"what": "RESULT_NOT_A_REAL_INSTANCE", "observed": type(o).__name__}
            elif name == "an_many_rows":
                # SIZE: an evaluation that hands out 150-320 results, each computed by user code that constructs a @symbol object
                nb = 150 + 17 * (step % 11)
                many = many_pool[:nb]
                with symbolic_mode():
                    x5 = let(B, many)
                    mq = an(entity(x5, x5.twin().n > 0, makes_real_instance(x5)))
                got_m = [getattr(o, "n", None) for o in mq.evaluate()]
                if got_m != list(range(1, nb + 1)):
                    fail = {"what": "USER_CODE_SAW_SYMBOLIC_MODE_DURING_A_LONG_EVALUATION", "rows": len(got_m), "expected_rows": nb,
                            "first_difference": next((i_ for i_, (a_, b_) in enumerate(zip(got_m, range(1, nb + 1))) if a_ != b_), min(len(got_m), nb))}
            elif name == "an_plain_method":
                # a query WITHOUT any predicate term whose condition reaches user code that constructs a @symbol object
                with symbolic_mode():
                    x4 = let(B, bs)
                    pq = an(entity(x4, x4.twin().n > 1))
                got_n = [getattr(o, "n", None) for o in pq.evaluate()]
                if got_n != [2, 3, 4]:
                    fail = {"what": "USER_CODE_SAW_SYMBOLIC_MODE_DURING_EVALUATION", "observed": got_n, "expected": [2, 3, 4]}
            elif name == "block_term_then_rule":
                # a predicate term added in the block of a query, then rule_mode(query) opened and left: nothing stays behind
                from entity_query_language import HasType
                with symbolic_mode():
                    with an(entity(let(B, bs))) as bq:
                        HasType(B)
                with rule_mode(bq):
                    pass
            elif name == "an_raise":
                # user code raises while a result is being computed; the exception is handled right here, at the current nesting
                with symbolic_mode():
                    x2 = let(B, bs)
                    rq = an(entity(x2, pos_or_boom(x2)))
                got_n = []
                try:
                    for o in rq.evaluate():
                        got_n.append(getattr(o, "n", None))
                    fail = {"what": "USER_EXCEPTION_SWALLOWED", "results": got_n}
                except Boom:
                    if got_n != [1, 2]:
                        fail = {"what": "RESULTS_BEFORE_USER_EXCEPTION", "observed": got_n, "expected": [1, 2]}
            elif name == "the_multi_sub":
                # the(...) over a description with a nested an(...) sub-query and two solutions: MultipleSolutionFound is raised
                # while the sub-query is suspended; handled here, the suspended generators are finalised when the handler ends
                from entity_query_language import MultipleSolutionFound
                with symbolic_mode():
                    x3, y3 = let(B, bs), let(B, bs)
                    tq2 = the(entity(x3, x3 == an(entity(y3, y3.n > 2))))
                try:
                    tq2.evaluate()
                    fail = {"what": "THE_WITH_TWO_SOLUTIONS_DID_NOT_RAISE"}
                except MultipleSolutionFound:
                    pass
                gc.collect()
            elif name == "leave":
                _, _, cm = stack.pop()
                tops.pop()
                cm.__exit__(None, None, None)
            elif name == "raise_leave":
                _, _, cm = stack.pop()
                tops.pop()
                try:
                    e = Boom()
                    cm.__exit__(Boom, e, None)
                except Boom:
                    pass
            elif name == "term_build_raises":
                # a constrained term whose construction fails (the value has no truth value), handled at the current nesting:
                # the innermost block keeps its mode
                from entity_query_language import From
                if ref_mode() is not None:
                    try:
                        B(From(bs), n=NoTruth())
                        ctx.cls("cls:term_build_did_not_raise")
                    except ValueError:
                        ctx.cls("cls:term_build_raised_inside_a_block")
            elif name == "mkit":
                its.append([mkq().evaluate(), len(stack), B])
            elif name == "mkit_flat":
                # results are the elements of a generator property whose clean-up clause constructs a @symbol object
                from entity_query_language import flatten
                with symbolic_mode():
                    xf = let(B, bs)
                    fq = an(entity(flatten(xf.parts), xf.n > 0))
                its.append([fq.evaluate(), len(stack), int])
            else:
                ent = its[op[1] % len(its)]
                if ent[1] != len(stack):
                    seen_other_depth[0] = True
                if name == "next":
                    try:
                        o = next(ent[0])
                        if type(o) is not ent[2]:
                            fail = {"what": "RESULT_NOT_A_REAL_INSTANCE", "observed": type(o).__name__}
                    except StopIteration:
                        pass
                    ent[1] = len(stack)
                elif name == "close":
                    its.remove(ent)
                    ent[0].close()
                elif name == "drop":
                    its.remove(ent)
                    ent[0] = None
                    del ent
                    gc.collect()
                elif name == "exhaust":
                    its.remove(ent)
                    for o in ent[0]:
                        if type(o) is not ent[2]:
                            fail = {"what": "RESULT_NOT_A_REAL_INSTANCE", "observed": type(o).__name__}
            if name in OPS_ENTER:
                tops.append(SymbolicExpression._current_parent_() if stack[-1][1] else None)
            if CLEANUPS:
                ctx.count("cleanup_probes", len(CLEANUPS))
                if any(type(c_) is not B2 for c_ in CLEANUPS) and not fail:
                    fail = {"what": "USER_CLEANUP_CODE_SAW_SYMBOLIC_MODE_WHILE_AN_EVALUATION_WAS_FINALISED",
                            "observed": sorted({type(c_).__name__ for c_ in CLEANUPS})}
                CLEANUPS.clear()
            fail = fail or observe(step, name)
            if fail:
                fail.update({"step": step, "op": op})
                break
    finally:
        while stack:
            _, _, cm = stack.pop()
            try:
                cm.__exit__(None, None, None)
            except Exception:
                pass
        its.clear()
        gc.collect()
        CLEANUPS.clear()
    if not fail:
        if _symbolic_mode.get() is not None or SymbolicExpression._symbolic_expression_stack_:
            fail = {"what": "STATE_AFTER_ALL_BLOCKS_LEFT", "mode": repr(_symbolic_mode.get()),
                    "stack_depth": len(SymbolicExpression._symbolic_expression_stack_), "step": len(case["ops"])}
    if seen_other_depth[0]:
        ctx.cls("cls:iterator_op_at_other_depth")
        ctx.nontrivial()
    if fail:
        ctx.fail(fail["what"], fail)
    ctx.sample({"ops": case["ops"]})
