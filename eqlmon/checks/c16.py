"""C16  flatten behaves as UNNEST: one row per inner element, correlated with its parent.

Oracle: the MULTISET { (p, x) : p in parents, x in iter_or_singleton(p.items) } restricted by the conditions and projected
on the selection.  Selections {elem}, {parent, elem}, {elem, parent}; conditions on the element and/or the parent and/or
a join of the element with another variable; inner lists of different lengths, empty, overlapping, with repeated elements;
a scalar attribute counts as one element.
"""
from __future__ import annotations

from collections import Counter
from dataclasses import dataclass, field
from typing import Any

from entity_query_language import symbol, predicate


@predicate
def f_le(x, n):
    """gets the flattened element AND another expression over the same element"""
    return x.n <= n

ID = "C16"
LEVEL = "exploration"
RULE = ("random parent domains (1-5 parents, inner lists of length 0-4 drawn with repetition from 5 element objects, so lists "
        "overlap and repeat; a scalar attribute as well) x selection {elem | parent,elem | elem,parent} x condition "
        "{none | elem.n>t | parent.k>t | both | elem joined with another variable | three conditions joining the element, the parent and two further variables | or_ / and_ / several / negated conditions on the element} x caching on/off; results compared as "
        "multisets of identities. Non-trivial: at least two parents have different non-empty lists and the result is "
        "neither empty nor everything. distinct by structural hash.")
RULE += " Size cases (every tier): 25-50 parents with inner collections of 8-24 plain numbers, two conditions on the element, optionally three tiers enumerated outside the flatten; evaluated twice."
RULE += ' Failing inner collection (every tier): for inner collections that are @symbol instances the same query object is first evaluated while one collection fails to hand out its iterator (1st-3rd request); the exception must reach the caller and the judged evaluations that follow must be exact.'
LEVEL_TEXT = ("Reference-model monitoring: rows of the real flatten query compared by identity and multiplicity with the "
              "nested-loop UNNEST written in plain Python.")
LEVEL_NOTE = "Trusted: the oracle (a two-line nested loop)."
TECHNIQUE = "runtime monitoring: differential oracle (UNNEST as nested loop) on result multisets by identity"
ASSUMPTIONS = ["element and parent objects are truthy (falsy elements are C19's data class)"]


@symbol
@dataclass(eq=False)
class E:
    n: Any = 0
    subs: Any = field(default_factory=list)      # a second level of nesting (used by C17)

    def __repr__(self):
        return f"E{self.n}"


@symbol
@dataclass(eq=False)
class Par:
    k: Any = 0
    items: Any = field(default_factory=list)
    one: Any = None

    @property
    def items_once(self):
        """the inner collection as a ONE-SHOT iterator, a fresh one on every access"""
        return iter(list(self.items))

    def __repr__(self):
        return f"Par{self.k}"


@symbol
@dataclass(eq=False)
class Bag:
    """an inner collection that is itself an instance of a @symbol class (iterable through __iter__)"""
    xs: Any = field(default_factory=list)

    def __iter__(self):
        # fault injection: when armed, the j-th request for an iterator fails (a lazily loaded collection whose backend is down)
        FLAKY["calls"] += 1
        if FLAKY["fail_at"] is not None and FLAKY["calls"] == FLAKY["fail_at"]:
            raise BackendDown()
        return iter(self.xs)


class BackendDown(Exception):
    pass


FLAKY = {"calls": 0, "fail_at": None, "swallowed": 0, "raised": 0}


def plan(tier, seed):
    n = 250 if tier == "quick" else 3000
    specs_ = [{"n": n, "sub": i} for i in range(16)]
    specs_ += [{"kind": "ix", "n": 40 if tier == "quick" else 400, "sub": 900 + i} for i in range(16)]
    specs_ += [{"kind": "bigflat", "n": 3 if tier == "quick" else 14, "sub": 1500 + i} for i in range(16)]
    return specs_


def floors(tier):
    return {"re:cls:scale:hundreds_of_parent_element_rows:.*": 140, "cls:feature_interaction_query": 300, "distinct_nontrivial": 400, "cls:sel:elem": 500, "cls:sel:parent_elem": 500, "cls:sel:elem_parent": 300, "cls:sel:parent": 300, "cls:primitive_elements": 300, "cls:parent_is_a_query_reached_only_through_the_attribute": 150, "cls:inner_collection_is_a_symbol_instance": 200,
            "cls:cond:elem_then_parent_or": 150, "cls:cond:parent_then_pred_pair": 100, "cls:cond:elem_then_parent_notand": 150,
            "cls:cond:none": 200, "cls:cond:elem": 200, "cls:cond:parent": 200, "cls:cond:both": 200, "cls:cond:join": 200, "cls:cond:join3": 200, "cls:cond:elem_or": 200, "cls:cond:elem_stacked": 200, "cls:cond:elem_and": 200, "cls:cond:elem_not": 200,
            "cls:scalar": 200, "cls:evaluated_after_an_inner_collection_failed_to_iterate": 60, "cls:plain_scalar_value": 60, "cls:reevaluated_after_inner_lists_changed": 150, "cls:has_empty_list": 500, "cls:has_repeated_element": 500, "re:Flatten(@.*)?\\.enter": 2000}


def gen_world(rng):
    parents = []
    for k in range(rng.randint(1, 5)):
        parents.append({"k": k + 1, "items": [rng.randrange(5) for _ in range(rng.randint(0, 4))], "one": rng.randrange(5)})
    return {"parents": parents}


def gen_case(rng):
    if rng.random() < 0.08:
        # the flattened expression is a plain scalar, also a falsy one: it still counts as a single element
        w = gen_world(rng)
        for p in w["parents"]:
            p["one"] = ["s", rng.choice([0, None, "", False, 7, "z"])]
        return {"world": w, "sel": rng.choice(["elem", "parent_elem", "elem_parent"]), "cond": rng.choice(["none", "parent"]),
                "thr": 1, "kthr": rng.randint(0, 3), "thr2": 1, "scalar": True, "plain_scalar": True, "caching": rng.random() < 0.7}
    if rng.random() < 0.12:
        # primitive elements (negative and positive ints): no object identity to tell two elements of one list apart
        w = gen_world(rng)
        for p in w["parents"]:
            p["items"] = rng.sample(range(5), rng.randint(0, 4))
        return {"world": w, "prim": True, "sel": rng.choice(["elem", "parent_elem", "elem_parent", "parent"]),
                "cond": rng.choice(["none", "elem", "parent", "both", "elem_or", "elem_stacked", "elem_and", "elem_not",
                                    "elem_then_parent_or"]),
                "cond_order": [0, 1, 2], "thr": rng.randint(1, 4), "kthr": rng.randint(0, 3), "thr2": rng.randint(1, 5),
                "scalar": False, "caching": rng.random() < 0.7}
    if rng.random() < 0.08:
        # the parent is itself a query with alternatives (the second one joins another variable) and is reachable only through
        # the flattened attribute: only its solutions' elements are unnested
        return {"world": gen_world(rng), "sub_parent": {"k1": rng.randint(1, 5)}, "sel": "elem", "cond": rng.choice(["none", "elem"]),
                "cond_order": [0, 1, 2], "thr": rng.randint(1, 3), "kthr": 0, "thr2": 1, "scalar": False, "caching": rng.random() < 0.6}
    return {"world": gen_world(rng), "bag": rng.random() < 0.1,
            "sel": rng.choice(["elem", "parent_elem", "parent_elem", "elem_parent", "parent"]),
            "cond": rng.choice(["none", "elem", "parent", "both", "join", "join3", "elem_or", "elem_stacked", "elem_and", "elem_not",
                                "elem_then_parent_or", "elem_then_parent_notand", "parent_then_pred_pair"]),
            "cond_order": rng.choice([[0, 1, 2], [2, 1, 0], [1, 0, 2], [2, 0, 1]]),
            "thr": rng.randint(1, 4), "kthr": rng.randint(0, 3), "thr2": rng.randint(1, 5),
            "scalar": rng.random() < 0.15, "caching": rng.random() < 0.7}


def check_bigflat_case(case, ctx):
    """SIZE: 25-50 parents with inner collections of 8-24 plain numbers (hundreds of (parent, element) rows), two or three
    conditions on the element, optionally a further variable enumerated OUTSIDE the flatten (three tiers); evaluated twice"""
    from entity_query_language import symbolic_mode, an, set_of, let, and_, or_
    from entity_query_language.entity import flatten
    from entity_query_language.cache_data import enable_caching, disable_caching
    ctx.cls("cls:scale:hundreds_of_parent_element_rows:" + case["shape"])
    ps = [Par(k, list(items)) for k, items in case["parents"]]
    ts = [E(n) for n in case["tiers"]]
    lo, hi = case["lo"], case["hi"]
    pidx = {id(p): i for i, p in enumerate(ps)}
    tidx = {id(t): i for i, t in enumerate(ts)}
    if case["shape"] == "plain":
        exp = sorted((pi, v) for pi, p in enumerate(ps) for v in p.items if p.k >= 1 and lo <= v < hi)
    else:
        exp = sorted((ti, pi, v) for ti, t in enumerate(ts) for pi, p in enumerate(ps) for v in p.items if t.n >= 0 and lo <= v < hi)
    if exp:
        ctx.nontrivial()
    (enable_caching if case["caching"] else disable_caching)()
    try:
        with symbolic_mode():
            p = let(Par, ps)
            e = flatten(p.items)
            if case["shape"] == "plain":
                q = an(set_of([p, e], p.k >= 1, e >= lo, e < hi))
                dec = lambda r: (pidx[id(r[p])], r[e])
            else:
                t = let(E, ts)
                q = an(set_of([t, p, e], and_(t.n >= 0, e >= lo, e < hi)))
                dec = lambda r: (tidx[id(r[t])], pidx[id(r[p])], r[e])
        for rnd in range(2):
            got = sorted(dec(r) for r in q.evaluate())
            if got != exp:
                ctx.fail("BIGFLAT:" + ("missing" if set(exp) - set(got) else "") + ("+extra" if set(got) - set(exp) else ""),
                         {"shape": case["shape"], "evaluation": rnd + 1, "n_expected": len(exp), "n_observed": len(got)})
                return
    except Exception as ex:
        import traceback
        ctx.fail("EXC", f"bigflat: {type(ex).__name__}: {ex}\n{traceback.format_exc()[-500:]}")
    finally:
        enable_caching()
    ctx.sample({"bigflat": case["shape"], "rows": len(exp)})


def cases(spec, ctx):
    if spec.get("kind") == "bigflat":
        for i in range(spec["n"]):
            rng = ctx.rng(spec["sub"], i)
            lo = rng.randint(2, 8)
            yield {"bigflat": True, "shape": ["plain", "tiers_outside", "tiers_outside"][(i + spec["sub"]) % 3],
                   "parents": [[rng.randint(0, 3), rng.sample(range(40), rng.randint(8, 24))] for _ in range(rng.randint(25, 50))],
                   "tiers": rng.sample(range(0, 6), 3), "lo": lo, "hi": lo + rng.randint(6, 25), "caching": rng.random() < 0.85}
        return
    if spec.get("kind") == "ix":
        from .. import ix
        for i in range(spec["n"]):
            yield {"ix": ix.gen_case_for(ctx.rng(spec["sub"], i), ID)}
        return
    for i in range(spec["n"]):
        case = gen_case(ctx.rng(spec["sub"], i))
        if case["sel"] == "parent" and case["cond"] in ("none", "parent"):
            case["cond"] = "elem"       # with only the parent selected the element has to be mentioned by a condition
        if case["sel"] == "parent" and case["cond"] == "elem_not":
            # a disjunction with an alternative that does not mention the (unselected) element of an EMPTY collection: the
            # short-circuit never unnests, "observed, not judged" in DESIGN 9.5 (like an empty domain below or_)
            for p in case["world"]["parents"]:
                if not p["items"]:
                    p["items"] = [p["k"] % 5]
        yield case


PRIMS = [-2, -1, 1, 2, 3]      # value of element i in a 'prim' world; E(i+1).n - 3 skips 0 (falsy values: C19)


def build_world(w, prim=False, bag=False):
    es = [E(i + 1) for i in range(5)]
    if bag:
        return es, [Par(p["k"], Bag([es[i] for i in p["items"]]), es[p["one"]]) for p in w["parents"]]
    if prim:
        return es, [Par(p["k"], [PRIMS[i] for i in p["items"]], PRIMS[p["one"]]) for p in w["parents"]]
    ps = [Par(p["k"], [es[i] for i in p["items"]], p["one"][1] if isinstance(p["one"], list) else es[p["one"]]) for p in w["parents"]]
    return es, ps


class _V:
    """a primitive element seen through the same `.n` the element objects have (thresholds are shifted with it)"""
    def __init__(self, v):
        self.v = v
        self.n = v + 3 if v < 0 else v + 2


def expected(case, es, ps):
    out = []
    for pi, p in enumerate(ps):
        if case.get("sub_parent") and not (p.k == case["sub_parent"]["k1"] or any(z.n == p.k for z in es[:3])):
            continue
        inner = [p.one] if case["scalar"] else p.items
        for x0 in inner:
            x = _V(x0) if case.get("prim") else x0
            ok = True
            c = case["cond"]
            if c in ("elem", "both") and not x.n > case["thr"]:
                ok = False
            t2 = case.get("thr2", 1)
            if c == "elem_or":
                ok = x.n > case["thr"] or x.n == t2
            if c == "elem_stacked":
                ok = x.n >= 0 and x.n > case["thr"]
            if c == "elem_and":
                ok = x.n >= t2 and x.n <= case["thr"] + 1
            if c == "elem_not":
                ok = not (x.n > case["thr"] and p.k > case["kthr"])
            if c in ("parent", "both") and not p.k > case["kthr"]:
                ok = False
            if c == "parent_then_pred_pair":
                # p.k > kthr, f_le(e, e.n): both arguments of the predicate are the SAME element's, so it holds for every element
                ok = p.k > case["kthr"] and x.n <= x.n
            if c == "elem_then_parent_or":
                ok = x.n > case["thr"] and (p.k == case["kthr"] or p.k > t2 - 1)
            if c == "elem_then_parent_notand":
                ok = x.n > case["thr"] and not (p.k != case["kthr"] and p.k <= t2 - 1)
            if c == "join":
                # joined with d over es[:3]: e == d  -> element must be one of the first three element objects
                ok = any(x is d for d in es[:3])
            if c == "join3":
                # three more variables: d over es[:3], z over es[2:], conditions z.n >= d.n, p.k >= d.n, e.n < d.n;
                # d and z are not selected, so the row (parent, element) qualifies if SOME d, z exist
                ok = any(z.n >= d.n and p.k >= d.n and x.n < d.n for d in es[:3] for z in es[2:])
            if ok:
                xl = f"E{es.index(x)}" if isinstance(x, E) else "scalar:" + repr(x0)
                out.append({"elem": (xl,), "parent_elem": (f"Par{pi}", xl), "elem_parent": (xl, f"Par{pi}"),
                            "parent": (f"Par{pi}",)}[case["sel"]])
    return out


def build_query(case, es, ps):
    """-> (query, function encoding its result rows)"""
    from entity_query_language import symbolic_mode, an, entity, set_of, let, and_, or_, not_
    from entity_query_language.entity import flatten
    lab = {id(e): f"E{i}" for i, e in enumerate(es)}
    lab.update({id(p): f"Par{i}" for i, p in enumerate(ps)})
    with symbolic_mode():
        p = let(Par, ps)
        if case.get("sub_parent"):
            from entity_query_language import an as _an, entity as _entity
            z_ = let(E, es[:3])
            p = _an(_entity(p, or_(p.k == case["sub_parent"]["k1"], p.k == z_.n)))
        e = flatten(p.one) if case["scalar"] else flatten(p.items)
        conds = []
        c = case["cond"]
        t2 = case.get("thr2", 1)
        if case.get("prim"):
            # the primitive v stands for n = v+3 (v<0) / v+2 (v>0): n > t  <=>  v > t-3 for negative and v > t-2 for positive v;
            # written on the value itself as a comparison with the matching primitive bound
            def gt(t):      # n > t
                return e > _prim_bound(t)

            def ge(t):
                return e >= _prim_lower(t)

            def le(t):
                return e <= _prim_bound(t)

            def eq(t):
                return e == _prim_of(t)
        else:
            def gt(t):
                return e.n > t

            def ge(t):
                return e.n >= t

            def le(t):
                return e.n <= t

            def eq(t):
                return e.n == t
        if c in ("elem", "both"):
            conds.append(gt(case["thr"]))
        sw = case.get("swap")       # operands of the connective in the other order (C18)
        if c == "elem_or":
            conds.append(or_(eq(t2), gt(case["thr"])) if sw else or_(gt(case["thr"]), eq(t2)))
        if c == "elem_stacked":
            conds += [gt(case["thr"]), ge(0)] if sw else [ge(0), gt(case["thr"])]
        if c == "elem_and":
            conds.append(and_(le(case["thr"] + 1), ge(t2)) if sw else and_(ge(t2), le(case["thr"] + 1)))
        if c == "elem_not":
            conds.append(not_(and_(gt(case["thr"]), p.k > case["kthr"])))
        if c == "parent_then_pred_pair":
            conds += [p.k > case["kthr"], f_le(e, e.n)]
        if c == "elem_then_parent_or":
            conds += [gt(case["thr"]), or_(p.k == case["kthr"], p.k > t2 - 1)]
        if c == "elem_then_parent_notand":
            conds += [gt(case["thr"]), not_(and_(p.k != case["kthr"], p.k <= t2 - 1))]
        if c in ("parent", "both"):
            conds.append(p.k > case["kthr"])
        if c == "join":
            d = let(E, es[:3])
            conds.append(e == d)
        if c == "join3":
            d = let(E, es[:3])
            z = let(E, es[2:])
            three = [z.n >= d.n, p.k >= d.n, e.n < d.n]
            conds += [three[i] for i in case.get("cond_order", [0, 1, 2])]
        if case["sel"] == "parent":
            q = an(entity(p, *conds))
        elif case["sel"] == "elem":
            q = an(entity(e, *conds))
        elif case["sel"] == "parent_elem":
            q = an(set_of([p, e], *conds))
        else:
            q = an(set_of([e, p], *conds))

    def el(v):
        return lab[id(v)] if id(v) in lab else "scalar:" + repr(v)

    def enc_rows(results):
        rows = []
        for r in results:
            if case["sel"] == "parent":
                rows.append((lab.get(id(r), "?"),))
            elif case["sel"] == "elem":
                rows.append((el(r),))
            elif case["sel"] == "parent_elem":
                rows.append((lab.get(id(r[p]), "?"), el(r[e])))
            else:
                rows.append((el(r[e]), lab.get(id(r[p]), "?")))
        return rows
    return q, enc_rows


def _prim_of(n):
    """the primitive whose pseudo-n is n (n = 1..5 -> -2, -1, 1, 2, 3); outside that range a value no element has"""
    return PRIMS[n - 1] if 1 <= n <= 5 else 99


def _prim_bound(n):
    """largest primitive with pseudo-n <= n"""
    return -3 if n < 1 else PRIMS[min(n, 5) - 1]


def _prim_lower(n):
    """smallest primitive with pseudo-n >= n"""
    return 99 if n > 5 else PRIMS[max(n, 1) - 1]


def run(case, es, ps, caching, times=1, aborted_first=None):
    from entity_query_language.cache_data import enable_caching, disable_caching
    (enable_caching if caching else disable_caching)()
    try:
        q, enc_rows = build_query(case, es, ps)
        if aborted_first:
            # HISTORY: the same query object evaluated once while an inner collection fails to hand out its iterator
            FLAKY.update(calls=0, fail_at=aborted_first)
            try:
                enc_rows(q.evaluate())
                if FLAKY["calls"] >= aborted_first:
                    FLAKY["swallowed"] += 1
            except BackendDown:
                FLAKY["raised"] += 1
            finally:
                FLAKY.update(fail_at=None)
        return [enc_rows(q.evaluate()) for _ in range(times)]
    finally:
        enable_caching()


def run_for_c05(case, caching, times):
    es, ps = build_world(case["world"], case.get("prim", False), case.get("bag", False))
    return run(case, es, ps, caching, times), expected(case, es, ps), False


def check_case(case, ctx):
    if "bigflat" in case:
        return check_bigflat_case(case, ctx)
    if "ix" in case:
        from .. import ix
        return ix.check(case["ix"], ctx)
    es, ps = build_world(case["world"], case.get("prim", False), case.get("bag", False))
    if case.get("prim"):
        ctx.cls("cls:primitive_elements")
    if case.get("bag"):
        ctx.cls("cls:inner_collection_is_a_symbol_instance")
    if case.get("sub_parent"):
        ctx.cls("cls:parent_is_a_query_reached_only_through_the_attribute")
    exp = expected(case, es, ps)
    ctx.cls("cls:sel:" + case["sel"])
    ctx.cls("cls:cond:" + case["cond"])
    ctx.cls("cls:caching_on" if case["caching"] else "cls:caching_off")
    if case["scalar"]:
        ctx.cls("cls:scalar")
    if case.get("plain_scalar"):
        ctx.cls("cls:plain_scalar_value")
    lists = [tuple(p["items"]) for p in case["world"]["parents"]]
    if any(len(l) == 0 for l in lists):
        ctx.cls("cls:has_empty_list")
    if any(len(set(l)) < len(l) for l in lists):
        ctx.cls("cls:has_repeated_element")
    total = len(ps) if case["scalar"] else sum(len(l) for l in lists)
    if len({l for l in lists if l}) >= 2 and 0 < len(exp) and (len(exp) < total or case["cond"] == "none"):
        ctx.nontrivial()
    try:
        ab = (1 + sum(len(l) for l in lists) % 3) if case.get("bag") else None
        before = dict(FLAKY)
        both = run(case, es, ps, case["caching"], times=2, aborted_first=ab)
        got = both[0]
        if FLAKY["raised"] > before["raised"]:
            ctx.cls("cls:evaluated_after_an_inner_collection_failed_to_iterate")
        if FLAKY["swallowed"] > before["swallowed"]:
            ctx.fail("EXCEPTION_OF_AN_INNER_COLLECTION_SWALLOWED", {"fail_at": ab})
            return
    except Exception as e:
        import traceback
        ctx.fail("EXC", f"{type(e).__name__}: {e}\n{traceback.format_exc()[-700:]}")
        return
    repeated = any(len(set(p["items"])) < len(p["items"]) for p in case["world"]["parents"]) and not case["scalar"]
    conjunctive = case["cond"] in ("none", "elem", "parent", "both", "elem_stacked", "elem_and", "join", "parent_then_pred_pair")
    if repeated and not conjunctive:
        # an object listed twice in one inner list under a disjunction: how often its row is returned is not specified (9.5) and
        # on the unchanged tree differs between a computed and a cache-served evaluation; the row SET has to be the same
        both = [sorted(set(both[0])), sorted(set(both[1]))]
    if Counter(both[1]) != Counter(both[0]):
        # the same query object, unchanged data: the second evaluation returns the rows of the first (also how often a
        # repeated element of one list is returned)
        ctx.fail("SECOND_EVALUATION_DIFFERS", {"first": len(got), "second": len(both[1]),
                                               "only_first": list((Counter(got) - Counter(both[1])).elements())[:6],
                                               "only_second": list((Counter(both[1]) - Counter(got)).elements())[:6]})
        return
    # An object that occurs twice in ONE inner list gives two identical (parent, element) bindings.  UNNEST would return
    # both, C02 says an identical row is not returned twice; the statement's quantifier does not mention such lists, so
    # for them the multiplicity may be anything between "once per distinct (parent, element)" and "once per occurrence".
    upper = Counter(exp)
    lower = Counter(expected(case, es, [Par(p.k, list(dict.fromkeys(p.items)), p.one) for p in ps]))   # (a Bag iterates like its list)
    g = Counter(got)
    if case["cond"] == "join3":
        # two joined variables are not selected: how often a (parent, element) row repeats is not specified, the row set is
        upper, lower, g = Counter(set(exp)), Counter(set(exp)), Counter(set(got))
    miss = list((lower - g).elements())
    extra = list((g - upper).elements())
    if miss or extra:
        kind = ("SET:" if set(got) != set(exp) else "MULTIPLICITY:") + ("missing" if miss else "") + ("+extra" if extra else "")
        ctx.fail(kind, {"missing": miss[:8], "extra": extra[:8], "n_expected": [sum(lower.values()), sum(upper.values())],
                        "n_observed": len(got)})
    elif upper != lower and g != upper:
        ctx.count("repeated_element_in_one_list_collapsed")
    if case["cond"] == "none" and not case["scalar"] and not case.get("prim") and not case.get("bag") and not case.get("sub_parent") \
            and not (miss or extra):
        # a query without conditions holds no cached truth values: evaluated again after the inner collections changed,
        # the same query object unnests the collections as they are now
        ctx.cls("cls:reevaluated_after_inner_lists_changed")
        from entity_query_language.cache_data import enable_caching, disable_caching
        q, enc_rows = build_query(case, es, ps)
        (enable_caching if case["caching"] else disable_caching)()
        try:
            first = enc_rows(q.evaluate())
            for i, p_ in enumerate(ps):
                if i % 3 == 0:
                    p_.items.append(es[(i + 2) % 5])
                elif i % 3 == 1 and p_.items:
                    p_.items.pop(0)
                elif p_.items:
                    p_.items[-1] = es[(i + 1) % 5]
            second = enc_rows(q.evaluate())
        finally:
            enable_caching()
        exp2 = expected(case, es, ps)
        up2 = Counter(exp2)
        lo2 = Counter(expected(case, es, [Par(p.k, list(dict.fromkeys(p.items)), p.one) for p in ps]))
        g2 = Counter(second)
        if (lo2 - g2) or (g2 - up2):
            ctx.fail("STALE_AFTER_DATA_CHANGE", {"missing": list((lo2 - g2).elements())[:8], "extra": list((g2 - up2).elements())[:8],
                                                 "rows_first": len(first), "rows_second": len(second)})
    ctx.sample({"parents": case["world"]["parents"], "select": case["sel"], "condition": case["cond"], "scalar": case["scalar"],
                "expected": exp[:6], "observed": got[:6]})
