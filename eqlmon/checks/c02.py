"""C02  A multi-variable query returns exactly the satisfying assignments.

Refuting event: a query whose row SET (tuples of identities in selection order) differs from the brute-force filter of
the Cartesian product projected on the selection; when every variable is selected, also a different MULTISET; every
row[expr] (variables and attribute expressions, read through the row object) must be the value under that assignment.
"""
from __future__ import annotations

from .. import classify as KF
from .. import cond as C
from .. import data as D
from .. import harness as H
from .. import monitors as M
from .. import multi

ID = "C02"
LEVEL = "exploration"
RULE = ("random queries over 1-4 variables of two related classes (Q.p -> P): self-joins, chained attributes, object "
        "equality joins, literals, predicates over two variables, conditions mentioning only a subset of the variables "
        "(free Cartesian completion), no condition at all, every selection subset and order, selected attribute "
        "expressions; depth<=4; caching on (default) and off; set_of(...) and an([..], ...) spellings. Non-trivial: the "
        "oracle result is neither empty nor the whole product; distinct by structural hash of (query, data, config).")
LEVEL_TEXT = ("Reference-model monitoring at the API boundary: rows returned by the real evaluation are compared, by object "
              "identity, with the brute-force filter of the Cartesian product (set always; multiset when all variables "
              "are selected). Random workload sharded over 16 processes; node/cache/dedup monitors show which joins, "
              "completion and de-duplication paths actually ran. Holds on the executions produced.")
LEVEL_NOTE = ("Trusted: the oracle and the AST->EQL translation (cross-checked by C18). Two listed findings mask narrow "
              "classes: K05 (rows missing only with caching on, attributed by cache-off agreement + a K20 retrieve "
              "deviation seen by the cache monitor) and K02 (rows missing when a mentioned variable is not selected, "
              "attributed by the dedup-off counterfactual). Everything outside stays armed.")
TECHNIQUE = "runtime monitoring: differential oracle on result rows (identity; set/multiset), random multi-variable workloads, counterfactual attribution of known findings"
ASSUMPTIONS = [
    "oracle = ordinary Python evaluation of the condition over the Cartesian product of the domains",
    "no falsy attribute values (C19's data class); expression aliasing is not generated",
    "Union is unreachable from or_()/| on this code base (evidence: monitor_counts has no Union.* entry); it is "
    "exercised only through Next in C12",
]


def plan(tier, seed):
    n = 450 if tier == "quick" else 4000
    return [{"n": n, "sub": i} for i in range(16)]


def floors(tier):
    return {"distinct_nontrivial": 300, "cls:all_selected": 200, "cls:subset_selected": 100, "cls:caching_off": 100,
            "cls:completion": 50, "cls:expr_selected": 10, "re:.*@Comparator\\.R\\.enter": 1000,
            "re:Variable@Comparator\\.L\\.enter": 100, "cache.check.hit": 200, "dedup.call": 500,
            "cls:nvars=3": 100, "cls:nvars=4": 50}


def cases(spec, ctx):
    for i in range(spec["n"]):
        rng = ctx.rng(spec["sub"], i)
        nv_hi = 4 if rng.random() < 0.35 else 3
        case = multi.gen_case(rng, nvars=(1, nv_hi), depth=(1, 4), equal_valued=0.12)
        if rng.random() < 0.03:
            case["cond"] = None
        case["caching"] = rng.random() < 0.7
        case["form"] = rng.choice(["set_of", "set_of", "direct_list"])
        case["how"] = rng.choice(["let", "let", "mix"])
        case["times"] = rng.choice([1, 1, 2, 3])
        yield case


def _run(case, world, caching, times=1):
    r = multi.evaluate(case, world, caching=caching, form=case.get("form", "set_of"), how=case.get("how", "let"), times=times)
    return r if times > 1 else r[0]


def check_case(case, ctx):
    world = D.build_world(case["world"])
    exp = multi.expected(case, world)
    nv = len(case["kinds"])
    ctx.cls(f"cls:nvars={nv}")
    ctx.cls("cls:all_selected" if multi.all_selected(case) else "cls:subset_selected")
    ctx.cls("cls:caching_on" if case["caching"] else "cls:caching_off")
    if "E" in case["kinds"]:
        ctx.cls("cls:equal_valued_distinct_objects")
    if any(not isinstance(s, int) for s in case["sel"]):
        ctx.cls("cls:expr_selected")
    ment = C.mentioned(case["cond"]) if case["cond"] is not None else set()
    if any(isinstance(s, int) and s not in ment for s in case["sel"]):
        ctx.cls("cls:completion")
    if multi.vars_mentioned_not_selected(case):
        ctx.cls("cls:K02_precondition(mentioned_not_selected)")
    if multi.nontrivial(case, world, exp):
        ctx.nontrivial()
    times = case.get("times", 1)
    try:
        gots = _run(case, world, case["caching"], times=max(times, 2))[:times] if times > 1 else [_run(case, world, case["caching"])]
    except Exception as e:
        ctx.fail("EXC", f"{type(e).__name__}: {e}")
        return
    got = gots[0]
    if "known_deviation" in M.RETRIEVE_EVENTS:
        ctx.cls("cls:K05_precondition(retrieve_deviation_event)")
    for n, g in enumerate(gots):
        k = multi.compare(case, g, exp)
        if k:
            ctx.fail(k, {"evaluation_no": n + 1, "expected": sorted(set(exp)), "observed": sorted(set(g)), "n_expected": len(exp),
                         "n_observed": len(g), "missing": sorted(set(exp) - set(g))[:10], "extra": sorted(set(g) - set(exp))[:10]},
                     evaluation_no=n + 1)
            break
    ctx.sample({"kinds": case["kinds"], "condition": case["cond"], "select": case["sel"], "caching": case["caching"],
                "expected_rows": len(exp), "observed_rows": len(got), "first_rows": got[:3]})


def classify(f, ctx):
    case = f["case"]
    world = D.build_world(case["world"])
    exp = multi.expected(case, world)
    return classify_multi(f, case, world, exp)


def classify_multi(f, case, world, exp):
    n = f.get("evaluation_no", 1)
    return KF.attribute(
        f, lambda caching: (_run(case, world, caching, times=n)[n - 1] if n > 1 else _run(case, world, caching)), exp,
        mentioned_not_selected=bool(multi.vars_mentioned_not_selected(case)),
        compare=lambda got, e: multi.compare(case, got, e))
