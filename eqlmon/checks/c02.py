"""C02  A multi-variable query returns exactly the satisfying assignments.

Refuting event: a query whose row SET (tuples of identities in selection order) differs from the brute-force filter of
the Cartesian product projected on the selection; when every variable is selected, also a different MULTISET; every
row[expr] (variables and attribute expressions, read through the row object) must be the value under that assignment.
"""
from __future__ import annotations

from .. import classify as KF
from .. import cond as C
from .. import data as D
from .. import harness as H
from .. import monitors as M
from .. import multi

ID = "C02"
LEVEL = "exploration"
RULE = ("(a) exhaustive: every condition tree with <= N connectives (N=2 quick, 3 thorough) over six two-variable leaves on a fixed "
        "3x4 world; (b) random queries over 1-4 variables of two related classes (Q.p -> P): self-joins, chained attributes, object "
        "equality joins, literals, predicates over two variables, conditions mentioning only a subset of the variables "
        "(free Cartesian completion), no condition at all, every selection subset and order, selected attribute "
        "expressions; depth<=4; caching on (default) and off; set_of(...) and an([..], ...) spellings; (c) joins written as positional / keyword arguments of a predicate-form term whose class inherits a keyword-only field (Lk(From(links), x, y)); (d) feature-interaction queries (eqlmon/ix.py): a parent, its flattened elements and a further variable, with nested an()/the() sub-queries, concatenate, for_all, predicates and membership atoms on top, evaluated twice, plus every ordered pair of interaction-atom kinds (pairwise coverage); histories as in C01 (repeated evaluation, abandoned-first, an earlier complete evaluation under the other caching switch). Non-trivial: the "
        "oracle result is neither empty nor the whole product; distinct by structural hash of (query, data, config).")
RULE += " Size cases (every tier, eqlmon/multi.gen_scale_case): joins and self-joins over 35-50 objects a side (more than a thousand candidate rows), triangle joins, and_/or_ with 6-9 operands, IN-lists written out over two same-type variables, 5-6 variables, evaluated 2-3 times."
LEVEL_TEXT = ("Reference-model monitoring at the API boundary: rows returned by the real evaluation are compared, by object "
              "identity, with the brute-force filter of the Cartesian product (set always; multiset when all variables "
              "are selected). Random workload sharded over 16 processes; node/cache/dedup monitors show which joins, "
              "completion and de-duplication paths actually ran. Holds on the executions produced.")
LEVEL_NOTE = ("Trusted: the oracle and the AST->EQL translation (cross-checked by C18). Two listed findings mask narrow "
              "classes: K05 (rows missing only with caching on, attributed by cache-off agreement + a K20 retrieve "
              "deviation seen by the cache monitor) and K02 (rows missing when a mentioned variable is not selected, "
              "attributed by the dedup-off counterfactual). Everything outside stays armed.")
TECHNIQUE = "runtime monitoring: differential oracle on result rows (identity; set/multiset), random multi-variable workloads, counterfactual attribution of known findings"
ASSUMPTIONS = [
    "oracle = ordinary Python evaluation of the condition over the Cartesian product of the domains",
    "no falsy attribute values (C19's data class); expression aliasing is not generated",
    "Union is unreachable from or_()/| on this code base (evidence: monitor_counts has no Union.* entry); it is "
    "exercised only through Next in C12",
]


# ---- joins written as positional arguments of a predicate-form term: Lk(From(links), x, y) joins x, y and the link
from dataclasses import dataclass as _dc, field as _field
from typing import Any as _Any
from entity_query_language import symbol as _symbol


@_symbol
@_dc(eq=False)
class LkBase:
    world: _Any = _field(default=None, kw_only=True)     # inherited keyword-only field: NOT the first positional one


@_symbol
@_dc(eq=False)
class Lk(LkBase):
    src: _Any = None
    dst: _Any = None
    w: _Any = 1


def _posjoin_case(rng):
    world = D.random_world(rng, np_=(2, 4), nq=(1, 2), rich=False)
    n = len(world["P"])
    links = [[rng.randrange(n), rng.randrange(n), rng.randint(1, 2)] for _ in range(rng.randint(2, 6))]
    return {"posjoin": {"links": links, "w": rng.choice([None, 1, 2]), "xk": rng.randint(0, 2), "spelling": rng.choice(["pos", "pos", "kw"]),
                        # (the term has to be selected: its arguments are conditions of the TERM, a query that does not mention it has none)
                        "sel": rng.choice([["l", "x", "y"], ["x", "l", "y"], ["y", "l"], ["l"]])},
            "world": world, "caching": rng.random() < 0.7}


def check_posjoin_case(case, ctx):
    from entity_query_language import symbolic_mode, an, set_of, let, From
    from entity_query_language.cache_data import enable_caching, disable_caching
    pj = case["posjoin"]
    world = D.build_world(case["world"])
    ps = world["P"]
    links = [Lk(src=ps[i], dst=ps[j], w=w) for i, j, w in pj["links"]]
    lab = {id(o): f"P{i}" for i, o in enumerate(ps)}
    lab.update({id(o): f"L{i}" for i, o in enumerate(links)})
    ctx.cls("cls:join_through_positional_term_arguments")
    exp = [{"l": l_, "x": x_, "y": y_} for l_ in links for x_ in ps for y_ in ps
           if l_.src is x_ and l_.dst is y_ and (pj["w"] is None or l_.w == pj["w"]) and x_.a > pj["xk"]]
    exp_rows = sorted({tuple(lab[id(r[k])] for k in pj["sel"]) for r in exp})
    if 0 < len(exp) < len(links):
        ctx.nontrivial()
    (enable_caching if case["caching"] else disable_caching)()
    try:
        with symbolic_mode():
            x, y = let(D.P, ps), let(D.P, ps)
            if pj["spelling"] == "pos":
                l = Lk(From(links), x, y) if pj["w"] is None else Lk(From(links), x, y, pj["w"])
            else:
                l = Lk(From(links), src=x, dst=y) if pj["w"] is None else Lk(From(links), src=x, dst=y, w=pj["w"])
            v = {"l": l, "x": x, "y": y}
            q = an(set_of([v[k] for k in pj["sel"]], x.a > pj["xk"]))
        got = sorted({tuple(lab.get(id(r[v[k]]), "?") for k in pj["sel"]) for r in q.evaluate()})
    except Exception as e:
        import traceback
        ctx.fail("EXC", f"positional join: {type(e).__name__}: {e}\n{traceback.format_exc()[-500:]}")
        return
    finally:
        enable_caching()
    if got != exp_rows:
        ctx.fail("SET:" + ("missing" if set(exp_rows) - set(got) else "") + ("+extra" if set(got) - set(exp_rows) else ""),
                 {"positional_join": pj, "expected": exp_rows, "observed": got})
    ctx.sample({"positional_join": pj, "expected": exp_rows[:4], "observed": got[:4]})


# ---- bounded-exhaustive part: two joined variables (x over P, y over Q), 6 leaves, fixed 3x4 world
A = lambda i, *path: ["v", i, [["a", p] for p in path]]
LEAVES2 = [
    ["cmp", "==", A(0, "a"), A(1, "a")],                 # value join
    ["cmp", "==", A(1, "p"), ["v", 0, []]],              # object join  y.p == x
    ["cmp", "<", A(0, "b"), A(1, "b")],                  # inequality join
    ["cmp", ">", A(0, "a"), ["lit", 1]],                 # mentions x only
    ["cmp", "!=", A(1, "a"), ["lit", 2]],                # mentions y only
    ["in", A(1, "a"), A(0, "t")],                        # membership join
]
W2 = {"P": [{"a": 1, "b": 2, "t": [1, 2]}, {"a": 2, "b": 1, "t": [3]}, {"a": 3, "b": 3, "t": [2, 3]}],
      "Q": [{"a": 1, "b": 3, "p": 0}, {"a": 2, "b": 2, "p": 2}, {"a": 3, "b": 1, "p": 2}, {"a": 2, "b": 3, "p": 1}]}
SELS2 = [[0, 1], [1, 0], [0], [1]]
SIZES = {"quick": 2, "thorough": 3}


def exhaustive_info(tier):
    n = SIZES[tier]
    return {"exhaustive": True,
            "bound": f"all {C.count_trees(len(LEAVES2), n)} condition trees with <= {n} connectives over 6 two-variable leaves (value, "
                     f"object, inequality and membership joins, one-variable conditions) on a fixed 3x4 world, each with one of 4 "
                     f"selections in rotation and caching on/off in rotation; every ordered pair of the 27 kinds of interaction atoms of "
                     f"eqlmon/ix.py (729 pairs) instantiated {1 if tier == 'quick' else 6} time(s) with random parameters, worlds and "
                     f"spellings (pairwise feature-interaction coverage, not exhaustive in the parameters); the random part is sampled"}


def plan(tier, seed):
    n = 800 if tier == "quick" else 4000
    nsh = 16
    return [{"n": n, "sub": i} for i in range(nsh)] + \
        [{"kind": "exh2", "size": SIZES[tier], "stride": nsh, "offset": i} for i in range(nsh)] + \
        [{"kind": "posjoin", "n": 40 if tier == "quick" else 400, "sub": 300 + i} for i in range(nsh)] + \
        [{"kind": "ix", "n": 150 if tier == "quick" else 1500, "sub": 600 + i} for i in range(nsh)] + \
        [{"kind": "ixpairs", "reps": 1 if tier == "quick" else 6, "stride": nsh, "offset": i, "sub": 900 + i} for i in range(nsh)] + \
        [{"kind": "scale", "n": 5 if tier == "quick" else 24, "sub": 1200 + i} for i in range(nsh)]


def floors(tier):
    return {"distinct_nontrivial": 300, "cls:all_selected": 200, "cls:subset_selected": 100, "cls:caching_off": 100,
            "cls:completion": 50, "cls:expr_selected": 10, "re:.*@Comparator\\.R\\.enter": 1000,
            "re:Variable@Comparator\\.L\\.enter": 100, "cache.check.hit": 200, "dedup.call": 500,
            "cls:nvars=3": 100, "cls:nvars=4": 50, "cls:exhaustive_two_variable_tree": 2000,
            "cls:join_through_positional_term_arguments": 200, "cls:preceded_by_an_abandoned_evaluation": 2000, "cls:preceded_by_an_evaluation_under_the_other_caching_switch": 500,
            "cls:feature_interaction_query": 1500, "ix_atom_pairs_instantiated": 2900, "re:cls:scale:.*": 240, "cls:ix:d_is_the_e": 60, "cls:ix:e_le_sub_an": 60, "cls:ix:exists_an": 60,
            "cls:ix:d_in_conc_p": 100, "cls:ix:d_in_conc_esubs": 100, "cls:ix:d_in_conc_psubs": 60, "cls:ix:forall_subs": 60,
            "cls:ix:forall_items_an": 60, "cls:ix:forall_subs_vs_d": 60, "cls:ix:pred_le": 100}


def check_ix_case(case, ctx):
    from .. import ix
    if "pair" in case:
        ctx.count("ix_atom_pairs_instantiated")
    return ix.check(case["ix"], ctx)


def cases(spec, ctx):
    if spec.get("kind") == "scale":
        # SIZE: domains of 40-300 objects, joins with more than a thousand candidate rows, self-joins, 5-6 variables, 6-9 operands
        for i in range(spec["n"]):
            rng = ctx.rng(spec["sub"], i)
            case = multi.gen_scale_case(rng, multi.SCALE_FLAVOURS[(spec["sub"] + i) % len(multi.SCALE_FLAVOURS)])
            case.update({"caching": rng.random() < 0.8, "form": "set_of", "how": "let", "times": rng.choice([2, 3]),
                         "take_first": rng.choice([0, 0, 2]), "keep_first": False})
            yield case
        return
    if spec.get("kind") == "ixpairs":
        # pairwise coverage of the interaction atoms: EVERY ordered pair of atom kinds, `reps` random instantiations each
        from .. import ix
        pairs = [(a, b) for a in ix.ATOM_KINDS for b in ix.ATOM_KINDS]
        for j, (k1, k2) in enumerate(pairs):
            if j % spec["stride"] != spec["offset"]:
                continue
            for r in range(spec["reps"]):
                yield {"ix": ix.gen_pair_case(ctx.rng(spec["sub"], j, r), k1, k2), "pair": [k1, k2]}
        return
    if spec.get("kind") == "ix":
        from .. import ix
        for i in range(spec["n"]):
            yield {"ix": ix.gen_case(ctx.rng(spec["sub"], i))}
        return
    if spec.get("kind") == "posjoin":
        for i in range(spec["n"]):
            yield _posjoin_case(ctx.rng(spec["sub"], i))
        return
    if spec.get("kind") == "exh2":
        for i, tree in enumerate(C.enumerate_trees(LEAVES2, spec["size"])):
            if i % spec["stride"] == spec["offset"]:
                yield {"world": W2, "kinds": ["P", "Q"], "cond": tree, "sel": SELS2[i % 4], "caching": (i // 4) % 3 != 0,
                       "form": "set_of", "how": "let", "times": 1 + (i // 12) % 2, "exh": True}
        return
    for i in range(spec["n"]):
        rng = ctx.rng(spec["sub"], i)
        nv_hi = 4 if rng.random() < 0.35 else 3
        case = multi.gen_case(rng, nvars=(1, nv_hi), depth=(1, 4), equal_valued=0.12)
        if rng.random() < 0.03:
            case["cond"] = None
        elif rng.random() < 0.07:
            # projection of a chain join: (x~y by one of two alternatives) and (z alone) and (y~z), few distinct values so that
            # several (y, z) partners exist per x; only part of the variables selected
            kinds = [rng.choice("PQ") for _ in range(3)]
            J = lambda i, j: ["cmp", "==", ["v", i, [["a", rng.choice("ab")]]], ["v", j, [["a", rng.choice("ab")]]]]
            parts = [["or", J(0, 1), J(0, 1)], ["cmp", rng.choice([">=", "<="]), ["v", 2, [["a", rng.choice("ab")]]], ["lit", rng.randint(0, 3)]], J(1, 2)]
            if rng.random() < 0.3:
                rng.shuffle(parts)          # (mostly: the disjunction first, the join partner y is not selected)
            case = {"world": D.random_world(rng, np_=(3, 6), nq=(3, 6), hi=rng.choice([3, 4]), rich=False), "kinds": kinds,
                    "cond": ["and"] + parts, "sel": rng.choice([[0], [0, 2], [2, 0], [0, 1], [2]])}
            case["split"] = True
        case["caching"] = rng.random() < 0.7
        case["form"] = rng.choice(["set_of", "set_of", "direct_list"])
        case["how"] = rng.choice(["let", "let", "mix"])
        case["times"] = rng.choice([1, 2, 2, 3])
        case["take_first"] = rng.choice([0, 0, 0, 1, 2, 3])
        case["keep_first"] = rng.random() < 0.4
        case["other_switch_first"] = rng.random() < 0.15
        yield case


def _run(case, world, caching, times=1):
    r = multi.evaluate(case, world, caching=caching, form=case.get("form", "set_of"), how=case.get("how", "let"), times=times,
                       split_top_and=bool(case.get("split")), take_first=case.get("take_first", 0),
                       keep_first=bool(case.get("keep_first")), first_under_other_switch=bool(case.get("other_switch_first")))
    return r if times > 1 else r[0]


def check_case(case, ctx):
    if "ix" in case:
        return check_ix_case(case, ctx)
    if "posjoin" in case:
        return check_posjoin_case(case, ctx)
    world = D.build_world(case["world"])
    exp = multi.expected(case, world)
    nv = len(case["kinds"])
    ctx.cls(f"cls:nvars={nv}")
    if case.get("exh"):
        ctx.cls("cls:exhaustive_two_variable_tree")
    if case.get("scale"):
        ctx.cls("cls:scale:" + case["scale"])
    if case.get("take_first"):
        ctx.cls("cls:preceded_by_an_abandoned_evaluation")
    if case.get("other_switch_first"):
        ctx.cls("cls:preceded_by_an_evaluation_under_the_other_caching_switch")
    ctx.cls("cls:all_selected" if multi.all_selected(case) else "cls:subset_selected")
    ctx.cls("cls:caching_on" if case["caching"] else "cls:caching_off")
    if "E" in case["kinds"]:
        ctx.cls("cls:equal_valued_distinct_objects")
    if any(not isinstance(s, int) for s in case["sel"]):
        ctx.cls("cls:expr_selected")
    ment = C.mentioned(case["cond"]) if case["cond"] is not None else set()
    if any(isinstance(s, int) and s not in ment for s in case["sel"]):
        ctx.cls("cls:completion")
    if multi.vars_mentioned_not_selected(case):
        ctx.cls("cls:K02_precondition(mentioned_not_selected)")
    if multi.nontrivial(case, world, exp):
        ctx.nontrivial()
    times = case.get("times", 1)
    try:
        gots = _run(case, world, case["caching"], times=max(times, 2))[:times] if times > 1 else [_run(case, world, case["caching"])]
    except Exception as e:
        ctx.fail("EXC", f"{type(e).__name__}: {e}")
        return
    got = gots[0]
    if "known_deviation" in M.RETRIEVE_EVENTS:
        ctx.cls("cls:K05_precondition(retrieve_deviation_event)")
    for n, g in enumerate(gots):
        k = multi.compare(case, g, exp)
        if k:
            ctx.fail(k, {"evaluation_no": n + 1, "expected": sorted(set(exp)), "observed": sorted(set(g)), "n_expected": len(exp),
                         "n_observed": len(g), "missing": sorted(set(exp) - set(g))[:10], "extra": sorted(set(g) - set(exp))[:10]},
                     evaluation_no=n + 1)
            break
    ctx.sample({"kinds": case["kinds"], "condition": case["cond"], "select": case["sel"], "caching": case["caching"],
                "expected_rows": len(exp), "observed_rows": len(got), "first_rows": got[:3]})


def classify(f, ctx):
    case = f["case"]
    if "posjoin" in case or "ix" in case:
        return None
    world = D.build_world(case["world"])
    exp = multi.expected(case, world)
    return classify_multi(f, case, world, exp)


def classify_multi(f, case, world, exp):
    n = f.get("evaluation_no", 1)
    return KF.attribute(
        f, lambda caching: (_run(case, world, caching, times=n)[n - 1] if n > 1 else _run(case, world, caching)), exp,
        mentioned_not_selected=bool(multi.vars_mentioned_not_selected(case)),
        compare=lambda got, e: multi.compare(case, got, e), nvars=len(case["kinds"]))
