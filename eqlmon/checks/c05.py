"""C05  Result caching is transparent.

Refuting event: one query whose fresh build evaluated under enable_caching() differs from its fresh build under
disable_caching() - as a set, as a multiset when every variable is selected, on the first or on the second
evaluation.  Each side is also compared with the oracle where one exists.

Scenario providers: multi-variable queries (joins, disjunctions, negation), for_all (C10's generator), nested
sub-queries (C15's generator), rule trees (C12's generator).
"""
from __future__ import annotations

from collections import Counter

from .. import classify as KF
from .. import cond as C
from .. import data as D
from .. import harness as H
from .. import monitors as M
from .. import multi

ID = "C05"
LEVEL = "exploration"
RULE = ("the same randomly generated query (providers: multi-variable join/disjunction/negation queries biased towards "
        "conjunctions of disjunctions over different variables, for_all queries, nested sub-queries, rule trees, flatten queries, feature-interaction queries of eqlmon/ix.py, right-nested alternatives whose last one joins an earlier declared variable, two 30-40 object joins) is built "
        "fresh and evaluated three times under caching enabled and built fresh and evaluated three times under caching disabled; "
        "the results are compared pairwise (first, second, third evaluation) with each other and with the oracle. Non-trivial: the caching-enabled run "
        "took at least one cache hit (IndexedCache.check returned True) and the result is neither empty nor the whole "
        "product; distinct by structural hash.")
RULE += " Size cases (every tier): the scale flavours of eqlmon/multi.gen_scale_case as further multi-variable providers (big joins, self-joins, triangle joins, 6-9 operands, 5-6 variables)."
LEVEL_TEXT = ("Differential monitoring of two configurations of the real code (cache on / cache off) plus the oracle, with "
              "a cache monitor counting the hits actually taken: a run in which fewer than 10% of the cases took a hit is "
              "inconclusive, because the repository's own tests never disable caching and the comparison would be vacuous.")
LEVEL_NOTE = ("Trusted: the oracle (only as a tie-breaker; the deciding comparison is on-vs-off). Listed finding K05 (rows "
              "missing only with caching on, caused by K20) is attributed by cache-off == oracle plus a retrieve answer that "
              "equals the K20 deviation model; any other on/off difference is a violation.")
TECHNIQUE = "runtime monitoring: configuration differential (cache on vs off) + oracle, cache-hit monitor for non-vacuity"
ASSUMPTIONS = ["both configurations are evaluated on fresh expression trees over the same objects"]


def providers():
    from . import c10, c12, c15, c16
    from .. import ix
    return {"multi": None, "forall": c10, "nested": c15, "ruletree": c12, "flatten": c16, "ix": ix}


def plan(tier, seed):
    n = 260 if tier == "quick" else 3000
    return [{"n": n, "sub": i} for i in range(16)]


def floors(tier):
    return {"distinct_nontrivial": 300, "cls:took_cache_hit": 400, "cls:provider:multi": 300, "cls:provider:forall": 50,
            "cls:provider:nested": 50, "cls:provider:ruletree": 30, "cls:provider:flatten": 50, "cls:provider:ix": 200, "cls:flattened_plain_numbers_as_cache_keys": 300, "re:cls:scale:.*": 240, "cls:more_than_500_rows_through_one_operator_cache": 20, "cache.check.hit": 2000, "cache.retrieve": 1000}


def _gen_multi(rng):
    nv = rng.choice([2, 3, 3, 4])
    # (a share of the worlds hold records with value equality and a value hash: distinct objects that are equal and hash alike)
    case = multi.gen_case(rng, nvars=(nv, nv), depth=(2, 4), opts={"p_leaf": 0.15, "preds": rng.random() < 0.5}, equal_valued=0.2)
    if rng.random() < 0.08:
        # records with value equality and a value hash that differ in a payload field: joined with another variable (the
        # records are the inner loop) and filtered by a disjunction / negation over the payload
        world = D.random_world(rng, np_=(2, 4), nq=(1, 2), hi=3)
        D.add_equal_valued_objects(rng, world, n=(3, 6))
        A = lambda i, f: ["v", i, [["a", f]]]
        join = ["cmp", rng.choice(["==", "<=", "!="]), A(1, "a"), A(0, "a")]
        pay = rng.choice([["or", ["cmp", "<", A(0, "b"), ["lit", 2]], ["cmp", ">", A(0, "b"), ["lit", 2]]],
                          ["not", ["cmp", "==", A(0, "b"), ["lit", rng.randint(1, 3)]]],
                          ["or", ["cmp", "==", A(0, "b"), A(1, "b")], ["cmp", ">", A(0, "b"), ["lit", 2]]]])
        return {"world": world, "kinds": ["E", "P"], "cond": ["and", join, pay], "sel": [0, 1], "equal_records": True}
    if rng.random() < 0.1:
        # alternatives nested to the right whose LAST one joins a variable that was declared first: or_(a(x), or_(b(x), x.a in y.t));
        # the inner disjunction leaves y unbound for some rows and binds it for others
        world = D.random_world(rng, np_=(3, 5), nq=(2, 4), hi=4)
        A = lambda i, f: ["v", i, [["a", f]]]
        join = rng.choice([["in", A(1, "a"), A(0, "t")], ["has", A(0, "t"), A(1, "b")], ["cmp", "==", A(1, "a"), A(0, "b")]])
        a_ = ["cmp", rng.choice([">", "=="]), A(1, "a"), ["lit", rng.randint(2, 4)]]
        b_ = ["cmp", rng.choice(["<", "=="]), A(1, "b"), ["lit", rng.randint(1, 2)]]
        return {"world": world, "kinds": ["P", rng.choice("PQ")], "cond": ["or", a_, ["or", b_, join]], "sel": rng.choice([[1, 0], [0, 1], [1]])}
    if rng.random() < 0.25:
        # disjunction over EQUAL variable sets whose left side is a conjunction, only part of the variables selected,
        # few distinct values: the re-evaluation answers true and false rows of the same selected value from the cache
        kinds = [rng.choice("PQ") for _ in range(2)]
        world = D.random_world(rng, np_=(2, 4), nq=(2, 4), hi=2, rich=False)
        o = dict(C.DEFAULT_OPTS)
        o.update({"preds": False, "member": False, "calls": False, "index": False, "strings": False, "objcmp": rng.random() < 0.5})

        def leaf2():
            for _ in range(20):
                l = C.gen_leaf(rng, kinds, o)
                if C.mentioned(l) == {0, 1}:
                    return l
            return ["cmp", "==", ["v", 0, [["a", "a"]]], ["v", 1, [["a", "b"]]]]
        cond = [rng.choice(["or", "|"]), ["and", leaf2(), leaf2()], leaf2()]
        if rng.random() < 0.3:
            cond = ["not", ["and", ["or", leaf2(), leaf2()], leaf2()]]
        return {"world": world, "kinds": kinds, "cond": cond, "sel": [rng.randrange(2)]}
    if rng.random() < 0.4:
        # conjunction of disjunctions over different variables: produces partial bindings at every level
        kinds = case["kinds"]
        parts = []
        for _ in range(rng.randint(2, 3)):
            parts.append(["or", C.gen_leaf(rng, kinds, dict(C.DEFAULT_OPTS)), C.gen_leaf(rng, kinds, dict(C.DEFAULT_OPTS))])
        case["cond"] = ["and"] + parts
    return case


def _gen_large(rng):
    """two joined variables over 30-40 objects each: several hundred to a thousand satisfying pairs go through one operator
    cache (a size-bounded or re-hashed index shows only then)"""
    world = D.random_world(rng, np_=(30, 40), nq=(30, 40), hi=6, rich=False)
    A = lambda i, f: ["v", i, [["a", f]]]
    cond = rng.choice([
        ["and", ["cmp", "<=", A(0, "a"), A(1, "a")], ["cmp", "!=", A(0, "b"), A(1, "b")]],
        ["or", ["and", ["cmp", "==", A(0, "a"), A(1, "a")], ["cmp", "<", A(0, "b"), A(1, "b")]], ["cmp", ">", A(0, "b"), A(1, "a")]],
        ["cmp", "!=", A(0, "a"), A(1, "b")],
    ])
    return {"world": world, "kinds": ["P", "Q"], "cond": cond, "sel": [0, 1], "large": True}


def cases(spec, ctx):
    provs = providers()
    for i in range(spec["n"]):
        rng = ctx.rng(spec["sub"], i)
        if i % 130 == 7:
            yield {"provider": "multi", "case": _gen_large(rng)}
            continue
        if i % 52 == 11:
            # SIZE (eqlmon/multi.gen_scale_case): big domains, joins and self-joins with more than a thousand candidate rows,
            # triangle joins, 6-9 operands, 5-6 variables
            yield {"provider": "multi", "case": multi.gen_scale_case(rng, multi.SCALE_FLAVOURS[(i // 52 + spec["sub"]) % len(multi.SCALE_FLAVOURS)])}
            continue
        k = rng.random()
        if i % 10 == 3:
            # flattened PLAIN NUMBERS (-2 and -1 among them: different values with the same hash) as elements or as universal
            # values: they are keys of the operator caches like objects are
            c_ = None
            for _ in range(200):
                c_ = provs["flatten"].gen_case(rng) if i % 20 == 3 else provs["forall"].gen_case(rng)
                if c_.get("prim") or c_.get("flatprim"):
                    break
            yield {"provider": "flatten" if i % 20 == 3 else "forall", "case": c_, "plain_numbers": True}
            continue
        if k < 0.12:
            from .. import ix
            yield {"provider": "ix", "case": ix.gen_case(rng)}
        elif k < 0.55:
            yield {"provider": "multi", "case": _gen_multi(rng)}
        elif k < 0.62:
            yield {"provider": "flatten", "case": provs["flatten"].gen_case(rng)}
        elif k < 0.78:
            yield {"provider": "forall", "case": provs["forall"].gen_case(rng)}
        elif k < 0.92:
            yield {"provider": "nested", "case": provs["nested"].gen_case(rng)}
        else:
            yield {"provider": "ruletree", "case": provs["ruletree"].gen_case(rng)}


def run_provider(pc, caching, times=3):
    """-> (list of row lists, expected rows or None, multiset_comparable: bool)"""
    prov, case = pc["provider"], pc["case"]
    if prov == "multi":
        world = D.build_world(case["world"])
        return multi.evaluate(case, world, caching=caching, times=times), multi.expected(case, world), multi.all_selected(case)
    mod = providers()[prov]
    return mod.run_for_c05(case, caching, times)


def check_case(pc, ctx):
    ctx.cls("cls:provider:" + pc["provider"])
    if pc["case"].get("scale"):
        ctx.cls("cls:scale:" + pc["case"]["scale"])
    if pc.get("plain_numbers"):
        ctx.cls("cls:flattened_plain_numbers_as_cache_keys")
    if pc["case"].get("large"):
        ctx.cls("cls:more_than_500_rows_through_one_operator_cache")
    try:
        M.begin_case()
        on, exp, multiset = run_provider(pc, True)
        counts_on = Counter(M.COUNTS)
        events_on = Counter(M.RETRIEVE_EVENTS)
        off, _, _ = run_provider(pc, False)
    except Exception as e:
        import traceback
        ctx.fail("EXC", f"{type(e).__name__}: {e}\n{traceback.format_exc()[-1500:]}")
        return
    hit = counts_on.get("cache.check.hit", 0) > 0
    if hit:
        ctx.cls("cls:took_cache_hit")
    if events_on["known_deviation"]:
        ctx.cls("cls:K05_precondition(retrieve_deviation_event)")
    if hit and exp is not None and len(set(exp)) > 0:
        ctx.nontrivial(pc)

    def cmp(a, b):
        return H.diff_kind(a, b, ordered=False, multiset=multiset)

    pairs = [("first evaluation: caching on vs off", on[0], off[0]), ("re-evaluation: caching on vs off", on[1], off[1]),
             ("second re-evaluation: caching on vs off", on[2], off[2])]
    for name, a, b in pairs:
        k = cmp(a, b)
        if k:
            ctx.fail("CONFIG_DIFF:" + k, {"pair": name, "only_on": sorted(set(a) - set(b))[:8], "only_off": sorted(set(b) - set(a))[:8],
                                          "n_on": len(a), "n_off": len(b)}, pair=name)
            break
    else:
        # transparent; whether both configurations are also right is C02/C10/C12/C15's business - evidence only
        if exp is not None and cmp(on[0], exp):
            ctx.count("both_configurations_differ_from_oracle")
    ctx.sample({"provider": pc["provider"], "case": pc["case"], "rows_on": len(on[0]), "rows_off": len(off[0]),
                "cache_hits_on": counts_on.get("cache.check.hit", 0)})


def classify(f, ctx):
    if f["kind"] != "CONFIG_DIFF:SET:missing":      # rows present with caching off are missing with caching on
        return None
    pc = f["case"]
    if pc["provider"] != "multi" or len(pc["case"]["kinds"]) < 3:
        return None     # K05's precondition: a plain condition query over >= 3 variables (eqlmon/classify.py)
    from ..shard import reset_eql_state
    try:
        reset_eql_state()
        M.begin_case()
        on, exp, multiset = run_provider(pc, True)
        ev = Counter(M.RETRIEVE_EVENTS)
        reset_eql_state()
        off, _, _ = run_provider(pc, False)
    except Exception:
        return None
    if exp is None:
        exp = off[0]

    def cmp(a, b):
        return H.diff_kind(a, b, ordered=False, multiset=multiset)

    if any(cmp(o, exp) for o in off):
        return None        # the cache-off configuration is itself wrong: not what K05 describes
    bad = [cmp(o, exp) for o in on]
    if not any(bad) or any(b not in (None, "SET:missing") for b in bad):
        return None
    if ev["known_deviation"] >= 1 and ev["other_deviation"] == 0:
        try:
            reset_eql_state()
            M.begin_case()
            M.FORCE_SPEC_RETRIEVE = True
            spec, _, _ = run_provider(pc, True)
        except Exception:
            return None
        finally:
            M.FORCE_SPEC_RETRIEVE = False
        if all(not (set(exp) - set(o)) for o in spec):
            return "K05"
    return None
