"""C15  A sub-query used inside a query means the same as its conditions inlined.

Three-way agreement  composed  /  flattened (conditions written in place)  /  oracle:
  position 'cond'     : sub-queries an(entity(v, c)) / an(set_of(vs, c)) used as conditions, combined with & and | with
                        each other and with plain conditions
  position 'operand'  : q.p == an(entity(y, c))   and   q.p == the(entity(y, c))   (the latter when c has one solution)
  position 'argument' : Q(From(qs), p=an(entity(y, c)))  as the selected entity (predicate-form argument)
"""
from __future__ import annotations

import itertools

from .. import classify as KF
from .. import cond as C
from .. import data as D
from .. import harness as H
from .. import monitors as M
from .. import multi

ID = "C15"
LEVEL = "exploration"
RULE = ("random pairs of sub-query conditions (depth<=2) over one P and one Q variable; connectives & and | (also mixed "
        "with a plain condition); sub-query kinds an(entity(x0,c)), an(entity(x1,c)), an(set_of([x0,x1],c)); positions "
        "condition / comparison operand (an and the; the sub-query itself or an attribute of it; as the container of a membership test; also inside the first alternative of a disjunction, also SELECTED by the enclosing query and mentioned only in its later alternative, also correlated with the enclosing query's variable, also over objects with value equality) / predicate-form argument / argument of a @predicate or of a rule's constructor while the enclosing conditions bind the sub-query's variable themselves; caching on and off. Non-trivial: the "
        "oracle result is neither empty nor the whole product. distinct by structural hash.")
RULE += " Size cases (every tier): an independent sub-query with 40-300 solutions as the operand of an equality (its variable selected) or as a whole condition after a conjunct leaving several rows; 66-80 equal-valued records on the compared side."
LEVEL_TEXT = ("Reference-model monitoring with a metamorphic twin: the composed query, the query with the sub-query's "
              "conditions written in place, and the plain-Python oracle must agree on the result set (compared by identity).")
LEVEL_NOTE = "Trusted: oracle + translation (the composed-vs-flattened comparison needs neither). K05 attributed as in C02."
TECHNIQUE = "runtime monitoring: three-way differential (composed query / inlined query / oracle) on result sets"
ASSUMPTIONS = ["sub-query expressions are not shared between two enclosing queries"]


def plan(tier, seed):
    n = 220 if tier == "quick" else 2500
    specs_ = [{"n": n, "sub": i} for i in range(16)]
    specs_ += [{"kind": "ix", "n": 40 if tier == "quick" else 400, "sub": 900 + i} for i in range(16)]
    specs_ += [{"kind": "big", "n": 2 if tier == "quick" else 12, "sub": 1600 + i} for i in range(16)]
    return specs_


def floors(tier):
    return {"re:cls:scale:subquery_with_many_solutions:.*": 100, "cls:feature_interaction_query": 300, "distinct_nontrivial": 200, "cls:pos:cond": 500, "cls:pos:operand_an": 100, "cls:pos:operand_the": 30,
            "cls:pos:argument": 100, "cls:pos:correlated_the": 100, "cls:pos:correlated_an": 100, "cls:pos:operand_value_eq": 100, "cls:pos:pred_arg_bound": 100, "cls:pos:ctor_arg_bound": 100, "cls:pos:operand_in_or": 100, "cls:pos:operand_attr": 100, "cls:pos:container": 100, "cls:pos:alias_in_or": 100, "cls:pos:selected_operand_in_or": 100, "cls:pos:selected_attr_of_subquery": 100, "cls:conn:&": 150, "cls:conn:|": 150, "cls:sub:set": 100, "cls:sub:ent0": 100,
            "cls:sub:ent1": 100, "cls:with_plain": 100, "re:An@.*\\.enter": 1000}


def gen_case(rng):
    world = D.random_world(rng, np_=(2, 4), nq=(2, 4))
    pos = rng.choice(["cond", "cond", "cond", "operand_an", "operand_the", "argument", "correlated_the", "correlated_an",
                      "operand_value_eq", "pred_arg_bound", "ctor_arg_bound", "operand_in_or", "operand_attr", "container", "alias_in_or", "selected_operand_in_or", "selected_attr_of_subquery"])
    case = {"world": world, "pos": pos, "caching": rng.random() < 0.7}
    if pos == "alias_in_or":
        # ONE attribute expression object (flag = y.flag, falsy values in the data) is the operand of a comparison and the whole
        # condition of a sub-query in the later alternative of a disjunction
        case["world"] = D.random_world(rng, np_=(2, 4), nq=(2, 4), falsy=True)
        return case
    if pos in ("correlated_the", "correlated_an"):
        case["attr"] = rng.choice(["a", "b"])
        case["op"] = rng.choice(["==", "!=", "<="])
        return case
    if pos == "operand_value_eq":
        # (a tenth: 70-90 records with value equality, so that the compared variable ranges over a LONG domain of objects that are
        #  equal to, but not the same as, the copies on the other side)
        case["many_records"] = rng.random() < 0.1
        D.add_equal_valued_objects(rng, world, n=(66, 80) if case["many_records"] else (3, 6))
        case["c1"] = C.gen_cond(rng, ["E"], rng.randint(0, 1), {"preds": False, "objcmp": False})
        return case
    if pos == "cond":
        kinds = ["P", "Q"]
        case.update({
            "c1": C.gen_cond(rng, kinds, rng.randint(0, 2), {"neg": True}),
            "c2": C.gen_cond(rng, kinds, rng.randint(0, 2), {"neg": True}),
            "k1": rng.choice(["ent0", "ent1", "set"]), "k2": rng.choice(["ent0", "ent1", "set"]),
            "conn": rng.choice(["&", "|"]),
            "plain": C.gen_cond(rng, kinds, rng.randint(0, 1)) if rng.random() < 0.35 else None,
            "plain_conn": rng.choice(["&", "|"]),
        })
    else:
        case["c1"] = C.gen_cond(rng, ["P"], rng.randint(0, 2))
        case["k0"], case["k"] = rng.randint(1, 3), rng.randint(0, 2)
        case["op2"] = rng.choice(["<=", "<", "==", "!="])
    return case


def gen_big_case(rng, shape):
    """SIZE: a sub-query with dozens to hundreds of solutions (many of them sharing the compared value), independent of the rest of
    the enclosing query: as the operand of an equality whose other side ranges over 60-100 objects, or as a whole condition after a
    conjunct that leaves several rows"""
    if shape == "operand_selected":
        world = D.random_world(rng, np_=(60, 90), nq=(36, 50), hi=6, rich=False)
    else:
        world = D.random_world(rng, np_=(270, 330), nq=(3, 4), hi=6, rich=False)
    return {"big": shape, "world": world, "k0": rng.randint(1, 3), "c1": ["cmp", rng.choice(["<=", ">=", "!="]), ["v", 0, [["a", "a"]]], ["lit", rng.randint(2, 5)]],
            "caching": rng.random() < 0.85, "pos": "big:" + shape}


def check_big_case(case, ctx):
    from entity_query_language import symbolic_mode, an, entity, set_of, let
    from entity_query_language.cache_data import enable_caching, disable_caching
    world = D.build_world(case["world"])
    m = H.labels_of(world)
    ps, qs = world["P"], world["Q"]
    shape = case["big"]
    ctx.cls("cls:scale:subquery_with_many_solutions:" + shape)
    sols = [p for p in ps if C.holds(case["c1"], (p,))]
    if shape == "operand_selected":
        # set_of([x, y], x.b >= k0, x.a == an(entity(y, c1)).b)   ==   set_of([x, y], x.b >= k0, c1(y), x.a == y.b)
        exp = sorted((m[id(q)], m[id(p)]) for q in qs for p in sols if q.b >= case["k0"] and q.a == p.b)
    else:
        # set_of([x, y], x.a >= k0, an(entity(y, c1)))   ==   set_of([x, y], x.a >= k0, c1(y))
        exp = sorted((m[id(q)], m[id(p)]) for q in qs for p in sols if q.a >= case["k0"])
    if exp:
        ctx.nontrivial()

    def build(flattened):
        with symbolic_mode():
            x, y = let(D.Q, qs), let(D.P, ps)
            c1 = C.build(case["c1"], [y], 0, False)
            if shape == "operand_selected":
                q = an(set_of([x, y], x.b >= case["k0"], c1, x.a == y.b)) if flattened else \
                    an(set_of([x, y], x.b >= case["k0"], x.a == an(entity(y, c1)).b))
            else:
                q = an(set_of([x, y], x.a >= case["k0"], c1)) if flattened else an(set_of([x, y], x.a >= case["k0"], an(entity(y, c1))))
        return q, x, y
    (enable_caching if case["caching"] else disable_caching)()
    try:
        for which in ("composed", "flattened"):
            q, x, y = build(which == "flattened")
            for rnd in range(2 if which == "composed" else 1):
                got = sorted((m[id(r[x])], m[id(r[y])]) for r in q.evaluate())
                if set(got) != set(exp):
                    ctx.fail("SET:" + ("missing" if set(exp) - set(got) else "") + ("+extra" if set(got) - set(exp) else ""),
                             {"which": which + " vs oracle", "shape": shape, "evaluation": rnd + 1, "n_expected": len(set(exp)),
                              "n_observed": len(set(got)), "subquery_solutions": len(sols)}, which=which)
                    return
    except Exception as e:
        import traceback
        ctx.fail("EXC", f"big: {type(e).__name__}: {e}\n{traceback.format_exc()[-500:]}")
    finally:
        enable_caching()
    ctx.sample({"big": shape, "rows": len(exp), "subquery_solutions": len(sols)})


def cases(spec, ctx):
    if spec.get("kind") == "big":
        for i in range(spec["n"]):
            yield gen_big_case(ctx.rng(spec["sub"], i), ["operand_selected", "independent_condition"][(i + spec["sub"]) % 2])
        return
    if spec.get("kind") == "ix":
        from .. import ix
        for i in range(spec["n"]):
            yield {"ix": ix.gen_case_for(ctx.rng(spec["sub"], i), ID)}
        return
    for i in range(spec["n"]):
        yield gen_case(ctx.rng(spec["sub"], i))


def flat_cond(case):
    t = "and" if case["conn"] == "&" else "or"
    c = [t, case["c1"], case["c2"]]
    if case.get("plain") is not None:
        c = ["and" if case["plain_conn"] == "&" else "or", c, case["plain"]]
    return c


def expected(case, world):
    m = H.labels_of(world)
    ps, qs = world["P"], world["Q"]
    if case["pos"] == "cond":
        fc = flat_cond(case)
        return [(m[id(p)], m[id(q)]) for p, q in itertools.product(ps, qs) if C.holds(fc, (p, q))]
    if case["pos"] == "alias_in_or":
        return [(m[id(q)], m[id(p)]) for q in qs for p in ps if q.a == p.flag or bool(p.flag)]
    if case["pos"] in ("correlated_the", "correlated_an"):
        # x.attr OP the(entity(y.attr, y == x.p)): the sub-query refers to the enclosing query's variable
        return [(m[id(q)],) for q in qs if C.OPS[case["op"]](getattr(q, case["attr"]), getattr(q.p, case["attr"]))]
    if case["pos"] == "operand_value_eq":
        es = world["E"]
        sols = [e for e in es if C.holds(case["c1"], (e,))]
        # the compared operand ranges over COPIES of the objects (equal, not identical): ==, i.e. VALUE equality
        return [(f"copy{i}",) for i, e in enumerate(_copies(world)) if any(e == s_ for s_ in sols)]
    sols = [p for p in ps if C.holds(case["c1"], (p,))]
    if case["pos"] == "operand_attr":
        # x.a OP an(entity(y, c1)).b : an ATTRIBUTE of the sub-query is the operand
        op = C.OPS[case.get("op2", "<=")]
        return [(m[id(q)],) for q in qs if any(op(q.a, p.b) for p in sols)]
    if case["pos"] == "container":
        # in_(x.a, an(entity(y.t, c1))) / contains(an(entity(y.t, c1)), x.a): the sub-query's solutions are the containers
        return [(m[id(q)],) for q in qs if any(q.a in p.t for p in sols)]
    if case["pos"] == "selected_attr_of_subquery":
        # sub = an(entity(y, c1)); an(set_of([x, sub.b], x.p == y)): only an ATTRIBUTE of the sub-query is selected, the
        # conditions mention its variable but not the sub-query; every selected value belongs to a y that satisfies c1
        return [(m[id(q)], "val:" + repr(p.b)) for p in sols for q in qs if q.p is p]
    if case["pos"] == "selected_operand_in_or":
        # sub = an(entity(y, c1)); an(set_of([sub, x], (x.a == k0) | (x.p == sub))): the sub-query is SELECTED and the conditions
        # mention it only in the later alternative; every selected y satisfies c1, also on rows the first alternative accepts
        return [(m[id(p)], m[id(q)]) for p in sols for q in qs if q.a == case["k0"] or q.p is p]
    if case["pos"] == "operand_in_or":
        # (x.p == an(entity(y, c1))) | (x.a == k0)
        return [(m[id(q)],) for q in qs if any(q.p is p for p in sols) or q.a == case["k0"]]
    if case["pos"] == "pred_arg_bound":
        # y.a >= k0, f_gt(an(entity(y, c1)), k): the predicate's argument is the sub-query over the variable an earlier
        # condition has bound already
        return [(m[id(p)],) for p in sols if p.a >= case["k0"] and p.a > case["k"]]
    if case["pos"] == "ctor_arg_bound":
        # infer(entity(Q(p=an(entity(y, c1)), a=x.a), x.p == y)): one new Q per x whose p is a solution of the sub-query
        return sorted({(m[id(q.p)], q.a) for q in qs if any(q.p is p for p in sols)})
    return [(m[id(q)],) for q in qs if any(q.p is p for p in sols)]


def _copies(world):
    if "_copies" not in world:
        # (of a long list of records only every sixth is copied: the other side of the comparison stays short)
        src = world["E"] if len(world["E"]) <= 20 else world["E"][::6]
        world["_copies"] = [D.PE(a=e.a, b=e.b, s=e.s, t=e.t, d=dict(e.d), flag=e.flag, ix=-1) for e in src]
    return world["_copies"]


def n_sub_solutions(case, world):
    return len([p for p in world["P"] if C.holds(case["c1"], (p,))])


def run(case, world, caching, times=1, flattened=False):
    from entity_query_language import symbolic_mode, an, the, entity, set_of, let, From
    from entity_query_language.cache_data import enable_caching, disable_caching
    m = H.labels_of(world)
    ps, qs = world["P"], world["Q"]
    if case["pos"] == "operand_value_eq":
        _copies(world)      # concrete copies: they have to be constructed OUTSIDE the symbolic block below
    (enable_caching if caching else disable_caching)()
    try:
        with symbolic_mode():
            if case["pos"] == "cond":
                xs = [let(D.P, ps), let(D.Q, qs)]
                if flattened:
                    comp = C.build(flat_cond(case), xs, 0, False)
                else:
                    def sq(kind, c):
                        e = C.build(c, xs, 0, False)
                        if kind == "ent0":
                            return an(entity(xs[0], e))
                        if kind == "ent1":
                            return an(entity(xs[1], e))
                        return an(set_of(xs, e))
                    s1, s2 = sq(case["k1"], case["c1"]), sq(case["k2"], case["c2"])
                    comp = (s1 & s2) if case["conn"] == "&" else (s1 | s2)
                    if case.get("plain") is not None:
                        pl = C.build(case["plain"], xs, 0, False)
                        comp = (comp & pl) if case["plain_conn"] == "&" else (comp | pl)
                q = an(set_of(xs, comp))
                sel = xs
            elif case["pos"] in ("correlated_the", "correlated_an"):
                y = let(D.P, ps)
                x = let(D.Q, qs)
                op = C.OPS[case["op"]]
                if flattened:
                    q = an(set_of([x], y == x.p, op(getattr(x, case["attr"]), getattr(y, case["attr"]))))
                else:
                    quant = the if case["pos"] == "correlated_the" else an
                    q = an(set_of([x], op(getattr(x, case["attr"]), quant(entity(getattr(y, case["attr"]), y == x.p)))))
                sel = [x]
            elif case["pos"] == "alias_in_or":
                y = let(D.P, ps)
                x = let(D.Q, qs)
                flag = y.flag
                if flattened:
                    q = an(set_of([x, y], (x.a == flag) | flag))
                else:
                    q = an(set_of([x, y], (x.a == flag) | an(entity(y, flag))))
                sel = [x, y]
            elif case["pos"] == "operand_value_eq":
                es = world["E"]
                copies = _copies(world)
                for i, c_ in enumerate(copies):
                    m[id(c_)] = f"copy{i}"
                x = let(D.PE, copies)
                y = let(D.PE, es)
                if flattened:
                    q = an(set_of([x], x == y, C.build(case["c1"], [y], 0, False)))
                else:
                    q = an(set_of([x], x == an(entity(y, C.build(case["c1"], [y], 0, False)))))
                sel = [x]
            elif case["pos"] == "pred_arg_bound":
                y = let(D.P, ps)
                if flattened:
                    q = an(set_of([y], y.a >= case["k0"], C.build(case["c1"], [y], 0, False), D.f_gt(y, case["k"])))
                else:
                    sub = an(entity(y, C.build(case["c1"], [y], 0, False)))
                    q = an(set_of([y], y.a >= case["k0"], D.f_gt(sub, case["k"])))
                sel = [y]
            elif case["pos"] == "ctor_arg_bound":
                pass    # built in rule mode below
            else:
                y = let(D.P, ps)
                x = let(D.Q, qs)
                if flattened and case["pos"] not in ("operand_in_or", "operand_attr", "container", "selected_operand_in_or",
                                                     "selected_attr_of_subquery"):
                    q = an(set_of([x], x.p == y, C.build(case["c1"], [y], 0, False)))
                elif case["pos"] == "operand_attr":
                    op = C.OPS[case.get("op2", "<=")]
                    if flattened:
                        q = an(set_of([x], C.build(case["c1"], [y], 0, False), op(x.a, y.b)))
                    else:
                        q = an(set_of([x], op(x.a, an(entity(y, C.build(case["c1"], [y], 0, False))).b)))
                elif case["pos"] == "container":
                    from entity_query_language import in_, contains
                    if flattened:
                        q = an(set_of([x], C.build(case["c1"], [y], 0, False), in_(x.a, y.t)))
                    elif case.get("k", 0) % 2:
                        q = an(set_of([x], in_(x.a, an(entity(y.t, C.build(case["c1"], [y], 0, False))))))
                    else:
                        q = an(set_of([x], contains(an(entity(y.t, C.build(case["c1"], [y], 0, False))), x.a)))
                elif case["pos"] == "selected_attr_of_subquery":
                    if flattened:
                        sel_ = [x, y.b]
                        q = an(set_of(sel_, x.p == y, C.build(case["c1"], [y], 0, False)))
                    else:
                        sub = an(entity(y, C.build(case["c1"], [y], 0, False)))
                        sel_ = [x, sub.b]
                        q = an(set_of(sel_, x.p == y))
                elif case["pos"] == "selected_operand_in_or":
                    if flattened:
                        q = an(set_of([y, x], C.build(case["c1"], [y], 0, False), (x.a == case["k0"]) | (x.p == y)))
                        sel_ = [y, x]
                    else:
                        sub = an(entity(y, C.build(case["c1"], [y], 0, False)))
                        q = an(set_of([sub, x], (x.a == case["k0"]) | (x.p == sub)))
                        sel_ = [sub, x]
                elif case["pos"] == "operand_in_or" and flattened:
                    q = an(set_of([x], ((x.p == y) & C.build(case["c1"], [y], 0, False)) | (x.a == case["k0"])))
                elif case["pos"] == "operand_in_or":
                    q = an(set_of([x], (x.p == an(entity(y, C.build(case["c1"], [y], 0, False)))) | (x.a == case["k0"])))
                elif case["pos"] == "operand_an":
                    q = an(set_of([x], x.p == an(entity(y, C.build(case["c1"], [y], 0, False)))))
                elif case["pos"] == "operand_the":
                    q = an(set_of([x], x.p == the(entity(y, C.build(case["c1"], [y], 0, False)))))
                else:
                    sub = an(entity(y, C.build(case["c1"], [y], 0, False)))
                    term = D.Q(From(qs), p=sub)
                    q = an(set_of([term]))
                    x = term
                sel = sel_ if case["pos"] in ("selected_operand_in_or", "selected_attr_of_subquery") else [x]
        if case["pos"] == "ctor_arg_bound":
            from entity_query_language import infer
            from entity_query_language.symbolic import rule_mode
            with rule_mode():
                y = let(D.P, ps)
                x = let(D.Q, qs)
                if flattened:
                    q = infer(entity(D.Q(p=y, a=x.a), x.p == y, C.build(case["c1"], [y], 0, False)))
                else:
                    sub = an(entity(y, C.build(case["c1"], [y], 0, False)))
                    q = infer(entity(D.Q(p=sub, a=x.a), x.p == y))
            return [sorted({(H.lab(m, r.p), r.a) for r in q.evaluate()}) for _ in range(times)]
        out = []
        val = (lambda v: m[id(v)] if id(v) in m else "val:" + repr(v)) if case["pos"] == "selected_attr_of_subquery" else \
            (lambda v: H.lab(m, v))
        for _ in range(times):
            out.append([tuple(val(r[s]) for s in sel) for r in q.evaluate()])
        return out
    finally:
        enable_caching()


def run_for_c05(case, caching, times):
    world = D.build_world(case["world"])
    if case["pos"] == "operand_the" and n_sub_solutions(case, world) != 1:
        case = dict(case)
        case["pos"] = "operand_an"
    return run(case, world, caching, times), expected(case, world), False


def check_case(case, ctx):
    if "big" in case:
        return check_big_case(case, ctx)
    if "ix" in case:
        from .. import ix
        return ix.check(case["ix"], ctx)
    world = D.build_world(case["world"])
    if case["pos"] == "operand_the" and n_sub_solutions(case, world) != 1:
        case = dict(case)
        case["pos"] = "operand_an"   # the(...) is only defined for exactly one solution (C06 judges the other classes)
        ctx.case = case
    exp = expected(case, world)
    ctx.cls("cls:pos:" + case["pos"])
    if case.get("many_records"):
        ctx.cls("cls:scale:70_to_90_equal_valued_records")
    if case["pos"] == "cond":
        ctx.cls("cls:conn:" + case["conn"])
        ctx.cls("cls:sub:" + case["k1"])
        ctx.cls("cls:sub:" + case["k2"])
        if case.get("plain") is not None:
            ctx.cls("cls:with_plain")
        total = len(world["P"]) * len(world["Q"])
    elif case["pos"] == "operand_value_eq":
        total = len(world["E"])
    elif case["pos"] == "pred_arg_bound":
        total = len(world["P"])
    elif case["pos"] in ("alias_in_or", "selected_operand_in_or"):
        total = len(world["P"]) * len(world["Q"])
    else:
        total = len(world["Q"])
    if 0 < len(set(exp)) < total:
        ctx.nontrivial()
    try:
        gots = run(case, world, case["caching"], times=3)
        got = gots[0]
    except Exception as e:
        import traceback
        ctx.fail("EXC", f"composed: {type(e).__name__}: {e}\n{traceback.format_exc()[-800:]}")
        return
    for n_, g_ in enumerate(gots[1:]):
        # the same composed query object evaluated again: nothing that a sub-query remembered may change its answer
        if set(g_) != set(got):
            ctx.fail("REEVALUATION", {"evaluation": n_ + 2, "only_first": sorted(set(got) - set(g_))[:8],
                                      "only_later": sorted(set(g_) - set(got))[:8]}, which="composed")
            break
    try:
        flat = run(case, world, case["caching"], flattened=True)[0]
    except Exception as e:
        ctx.fail("EXC", f"flattened: {type(e).__name__}: {e}")
        return
    k = H.diff_kind(got, exp, ordered=False, multiset=False)
    if k:
        ctx.fail(k, {"which": "composed vs oracle", "missing": sorted(set(exp) - set(got))[:8], "extra": sorted(set(got) - set(exp))[:8]},
                 which="composed")
    k2 = H.diff_kind(flat, exp, ordered=False, multiset=False)
    if k2:
        ctx.fail(k2, {"which": "flattened vs oracle", "missing": sorted(set(exp) - set(flat))[:8], "extra": sorted(set(flat) - set(exp))[:8]},
                 which="flattened")
    ctx.sample({"case": {k: v for k, v in case.items() if k != "world"}, "expected": exp[:5], "composed": got[:5], "flattened": flat[:5]})


def classify(f, ctx):
    if "ix" in f.get("case", {}) or "big" in f.get("case", {}):
        return None
    case = f["case"]
    if "which" not in f:
        return None
    world = D.build_world(case["world"])
    exp = expected(case, world)
    flattened = f["which"] == "flattened"
    # (C15's queries have two variables: below the >= 3 variables K05 needs, so nothing is ever attributed here)
    r = KF.attribute(f, lambda caching: run(case, world, caching, flattened=flattened)[0], exp, mentioned_not_selected=False,
                     compare=lambda got, e: H.diff_kind(got, e, ordered=False, multiset=False), nvars=2)
    return r if r == "K05" else None
