"""C20  The result-cache index returns exactly the stored entries matching a lookup.

IndexedCache is driven directly.  After every operation of a history (insert under a full or partial binding, overwrite,
clear) every lookup of a lookup set is issued and compared with a list-of-(binding, output) reference model:
  check(l)    (l binds >= 1 key)  <=>  some stored binding is contained in l
  retrieve(l) = multiset of (l merged with b, output) for every stored (b, output) that agrees with l on all shared keys
  clear()     empties both.
In two thirds of the histories every stored output is unique (history made unambiguous), so a retrieved pair identifies the insert
it came from; in the others the outputs are the truth flags the engine really stores (False / 0 / True / '', repeated). In half
of the histories the same value objects are bound under different keys (what a self-join over one domain does).

Known finding K20: retrieve hides entries behind wildcard/concrete siblings.  An answer that equals the specification is
fine; one that equals the executable deviation model (computed from the REFERENCE model, not from the cache's own dict)
is reported as K20; anything else is a VIOLATION.
"""
from __future__ import annotations

import itertools
from collections import Counter

ID = "C20"
LEVEL = "exploration"
RULE = ("(a) exhaustive: all insert sequences of length <= 4 over 2 keys and <= 3 over 3 keys (quick: <= 3 resp. <= 2) with a "
        "2-value alphabet and full or partial (non-empty) bindings, every full or partial lookup (incl. the empty one) after "
        "every insert; (b) random histories up to 14 ops over 1-4 keys and 3 values with overwrites, clears and lookups "
        "carrying extra non-key entries. Non-trivial: a lookup whose specification answer is non-empty and differs from "
        "'everything stored'; distinct = distinct (history prefix, lookup).")
RULE += " Size cases (every tier): histories of 40-800 inserts over alphabets of 8-20 values per key (hundreds of distinct bindings, dozens of coverage records), looked up after every 50th operation and at the end."
LEVEL_TEXT = ("Reference-model monitoring of a data structure in isolation: every answer of check / retrieve / clear after "
              "every step of enumerated and random histories is compared with a 10-line list model; the bounded part is "
              "exhaustive. The listed deviation K20 is recognised only by equality with an executable model of exactly "
              "that deviation, any third behaviour is a violation.")
LEVEL_NOTE = "Trusted: the list model and the K20 deviation model (eqlmon/checks/c20.py). flat (non-indexed) storage is out of scope."
TECHNIQUE = "runtime monitoring: reference-model checking of IndexedCache over exhaustive small histories + random histories, deviation-model classification"
ASSUMPTIONS = ["inserts bind at least one key (an empty binding goes to the flat store, which the statement does not cover)"]
WILD = "*"


def exhaustive_info(tier):
    a, b = (4, 3) if tier == "thorough" else (3, 2)
    return {"exhaustive": True, "bound": f"all insert sequences of length <= {a} over 2 keys ({sum(8 ** i for i in range(1, a + 1))}) "
                                         f"and <= {b} over 3 keys ({sum(26 ** i for i in range(1, b + 1))}), 2-value alphabet, "
                                         f"every lookup after every insert; random histories sampled"}


def plan(tier, seed):
    nsh = 16
    a, b = (4, 3) if tier == "thorough" else (3, 2)
    specs = [{"kind": "exh", "nkeys": 2, "maxlen": a, "stride": nsh, "offset": i} for i in range(nsh)]
    specs += [{"kind": "exh", "nkeys": 3, "maxlen": b, "stride": nsh, "offset": i} for i in range(nsh)]
    n = 150 if tier == "quick" else 2500
    specs += [{"kind": "rand", "n": n, "sub": i} for i in range(nsh)]
    return specs


def floors(tier):
    return {"distinct_nontrivial": 500, "lookups": 20000, "retrieve.exact": 10000, "check.compared": 10000,
            "cls:full_binding_history": 50, "cls:scale:history_of_40_to_800_inserts": 300, "cls:partial_binding_history": 500, "cls:overwrite": 100, "cls:clear": 100,
            "cls:extra_nonkey_entries": 100, "cls:values_shared_between_keys": 500, "cls:falsy_and_repeated_outputs": 300,
            "cls:raw_values_incl_None": 300, "cls:keys_and_bindings_spelled_in_reverse_order": 300,
            "cls:callers_dict_changed_after_insert": 200, "cls:lookups_left_after_their_first_match": 200, "cls:driven_while_the_caching_switch_is_off": 150}


def _bindings(nkeys, alpha=2):
    out = []
    for combo in itertools.product([None] + list(range(alpha)), repeat=nkeys):
        if any(c is not None for c in combo):
            out.append(list(combo))
    return out


def cases(spec, ctx):
    if spec["kind"] == "exh":
        bs = _bindings(spec["nkeys"])
        i = 0
        for n in range(1, spec["maxlen"] + 1):
            for seq in itertools.product(range(len(bs)), repeat=n):
                if i % spec["stride"] == spec["offset"]:
                    yield {"k": "exh", "nkeys": spec["nkeys"], "alpha": 2, "ops": [["ins", bs[j]] for j in seq], "lookups": "all",
                           "only_last": True, "shared_values": i % 2 == 1, "plain_outputs": i % 3 == 2,
                           "raw_values": i % 5 == 4, "unsorted_spelling": i % 4 == 3,
                           "caller_keeps_using_its_dict": i % 6 == 5, "abandoned_lookups": i % 7 == 6,
                           "caching_switch_off": i % 9 == 8}
                i += 1
        return
    for i in range(spec["n"]):
        rng = ctx.rng(spec["sub"], i)
        nkeys = rng.randint(1, 4)
        alpha = 3
        full_only = rng.random() < 0.15
        long_history = i % 25 == 4
        if long_history:
            # SIZE: 40-800 inserts over an alphabet of 8-20 values per key (hundreds of distinct bindings in one index, dozens of
            # coverage records), half of the histories with fully bound bindings only
            nkeys, alpha, full_only = rng.randint(2, 3), rng.choice([8, 12, 20]), rng.random() < 0.5
        ops = []
        for _ in range(rng.randint(40, 800) if long_history else rng.randint(3, 14)):
            k = rng.random()
            if k < (0.002 if long_history else 0.08):
                ops.append(["clear"])
            else:
                b = [rng.randrange(alpha) if (full_only or rng.random() < 0.7) else None for _ in range(nkeys)]
                if all(x is None for x in b):
                    b[rng.randrange(nkeys)] = rng.randrange(alpha)
                if ops and rng.random() < 0.15:
                    prev = [o for o in ops if o[0] == "ins"]
                    if prev:
                        b = list(rng.choice(prev)[1])   # overwrite an earlier binding
                ops.append(["ins", b])
        lookups = []
        for _ in range(30 if long_history else 6):
            l = [rng.randrange(alpha) if rng.random() < 0.6 else None for _ in range(nkeys)]
            lookups.append([l, rng.random() < 0.25])
        yield {"k": "rand", "nkeys": nkeys, "alpha": alpha, "ops": ops, "lookups": lookups, "only_last": False, "long_history": long_history,
               "shared_values": rng.random() < 0.5, "plain_outputs": rng.random() < 0.4,
               "raw_values": rng.random() < 0.15 and not long_history, "unsorted_spelling": rng.random() < 0.3,
               "caller_keeps_using_its_dict": rng.random() < 0.2, "abandoned_lookups": rng.random() < 0.2,
               "caching_switch_off": rng.random() < 0.15}


# ------------------------------------------------------------------------------------------------ models
def canon(r, o):
    return (tuple(sorted((k, getattr(v, "id_", None) if hasattr(v, "id_") else "raw:" + repr(v)) for k, v in r.items())), o)


def spec_retrieve(model, l):
    out = Counter()
    for mb, mo in model:
        if all(l[k] == v for k, v in mb.items() if k in l):
            m = dict(l)
            m.update(mb)
            out[canon(m, mo)] += 1
    return out


def spec_check(model, l, keys):
    lk = {k: v for k, v in l.items() if k in keys}
    return any(all(k in lk and lk[k] == v for k, v in mb.items()) for mb, _ in model)


def _gid(v):
    return v.id_ if hasattr(v, "id_") else ("raw", repr(v))


def deviation_retrieve(model, keys, l):
    """K20: at a bound level a concrete match hides the wildcard sibling, at an unbound level a wildcard child hides the
    concrete siblings; walked over the reference model arranged as the trie the implementation would build."""
    keys = sorted(keys)
    out = Counter()

    def rec(entries, idx, res):
        if idx == len(keys):
            for mb, mo in entries[-1:]:
                out[canon(res, mo)] += 1
            return
        k = keys[idx]
        groups = {}
        for e in entries:
            groups.setdefault(_gid(e[0][k]) if k in e[0] else WILD, []).append(e)
        if k in l:
            cid = _gid(l[k])
            if cid in groups:
                rec(groups[cid], idx + 1, res)
            elif WILD in groups:
                rec(groups[WILD], idx + 1, res)
        else:
            if WILD in groups:
                rec(groups[WILD], idx + 1, res)
            else:
                for g, es in groups.items():
                    r = dict(res)
                    r[k] = es[0][0][k]
                    rec(es, idx + 1, r)

    if model:
        rec(model, 0, dict(l))
    return out


RAW = [None, "b", 0]


def _show(v):
    return v.value[2] if hasattr(v, "value") and isinstance(v.value, tuple) and len(v.value) > 2 else repr(getattr(v, "value", v))


def check_case(case, ctx):
    from entity_query_language.cache_data import IndexedCache
    from entity_query_language.hashed_data import HashedValue
    nkeys, alpha = case["nkeys"], case["alpha"]
    keys = [3, 7, 11, 19][:nkeys]
    if case.get("raw_values"):
        # bound values that are plain objects, None and 0 among them ("a small value alphabet"): an unbound key is not a
        # key bound to None
        vals = {k: RAW[:alpha] for k in keys}
        ctx.cls("cls:raw_values_incl_None")
    elif case.get("shared_values"):
        # the same value objects may be bound under different keys (a self-join over one domain does exactly that)
        shared = [HashedValue(("v", i)) for i in range(alpha)]
        vals = {k: shared for k in keys}
    else:
        vals = {k: [HashedValue(("v", k, i)) for i in range(alpha)] for k in keys}
    extra = HashedValue("extra")
    # the key list and the bindings are spelled in any order (dicts keep insertion order, the index must not depend on it)
    cache = IndexedCache(list(reversed(keys)) if case.get("unsorted_spelling") else list(keys))
    if case.get("unsorted_spelling"):
        ctx.cls("cls:keys_and_bindings_spelled_in_reverse_order")
    model = []
    suspended = []
    if case["lookups"] == "all":
        lookups = [[list(c), False] for c in itertools.product([None] + list(range(alpha)), repeat=nkeys)]
    else:
        lookups = case["lookups"]
    partial = any(any(x is None for x in op[1]) for op in case["ops"] if op[0] == "ins")
    ctx.cls("cls:partial_binding_history" if partial else "cls:full_binding_history")
    if case.get("long_history"):
        ctx.cls("cls:scale:history_of_40_to_800_inserts")
    if case.get("shared_values"):
        ctx.cls("cls:values_shared_between_keys")
    if case.get("plain_outputs"):
        ctx.cls("cls:falsy_and_repeated_outputs")
    if case.get("caller_keeps_using_its_dict"):
        ctx.cls("cls:callers_dict_changed_after_insert")
    if case.get("abandoned_lookups"):
        ctx.cls("cls:lookups_left_after_their_first_match")
    known_seen = 0
    if case.get("caching_switch_off"):
        # the index is a data structure of its own (the instance registry is one too): the operators' caching switch is not its
        # business
        from entity_query_language.cache_data import disable_caching
        disable_caching()
        ctx.cls("cls:driven_while_the_caching_switch_is_off")
    for step, op in enumerate(case["ops"]):
        if op[0] == "clear":
            cache.clear()
            model = []
            ctx.cls("cls:clear")
        else:
            b = {k: vals[k][x] for k, x in zip(keys, op[1]) if x is not None}
            if case.get("unsorted_spelling") and step % 2 == 0:
                b = dict(reversed(list(b.items())))
            # the engine stores truth flags: outputs may be falsy and need not be unique
            out = [False, 0, True, "", None][step % 5] if case.get("plain_outputs") else f"out{step}"
            if any(mb == b for mb, _ in model):
                ctx.cls("cls:overwrite")
            if case.get("caller_keeps_using_its_dict"):
                # the caller's own dict is handed in and changed afterwards (one scratch dict reused for the next binding)
                scratch = dict(b)
                cache.insert(scratch, out)
                scratch.clear() if step % 2 else scratch.update({k: extra for k in keys})
            else:
                cache.insert(dict(b), out)
            model = [(mb, mo) for mb, mo in model if mb != b] + [(b, out)]
            if case.get("abandoned_lookups") and step % 2 == 0:
                # a lookup that is started and left after its first match (closed, or kept suspended) before the next operations
                it_ = iter(cache.retrieve(dict(b)))
                next(it_, None)
                if step % 4 == 0:
                    it_.close()
                else:
                    suspended.append(it_)
        if case.get("only_last") and step < len(case["ops"]) - 1:
            continue   # the prefixes are cases of their own in the exhaustive enumeration
        if case.get("long_history") and step % 50 != 49 and step < len(case["ops"]) - 1:
            continue   # (long histories are looked up after every 50th operation and at their end)
        for lspec, with_extra in lookups:
            l = {k: vals[k][x] for k, x in zip(keys, lspec) if x is not None}
            if case.get("unsorted_spelling"):
                l = dict(reversed(list(l.items())))
            if with_extra:
                l[99] = extra
                ctx.cls("cls:extra_nonkey_entries")
            ctx.count("lookups")
            lk = {k: v for k, v in l.items() if k in keys}
            if lk:
                ctx.count("check.compared")
                want = spec_check(model, l, keys)
                try:
                    got_c = cache.check(dict(l))
                except Exception as e:
                    ctx.fail("CHECK_EXC", {"step": step, "lookup": lspec, "error": f"{type(e).__name__}: {e}"})
                    return
                if bool(got_c) != want:
                    ctx.fail("CHECK", {"step": step, "lookup": lspec, "expected": want, "observed": bool(got_c),
                                       "stored": [[[k, _show(v)] for k, v in mb.items()] for mb, _ in model]})
                    return
            try:
                got = Counter(canon(r, o) for r, o in cache.retrieve(dict(l)))
            except Exception as e:
                ctx.fail("RETRIEVE_EXC", {"step": step, "lookup": lspec, "error": f"{type(e).__name__}: {e}"})
                return
            s = spec_retrieve(model, l)
            if 0 < sum(s.values()) < len(model):
                ctx.nontrivial({"ops": case["ops"][:step + 1], "lookup": lspec, "extra": with_extra, "nkeys": nkeys})
            if got == s:
                ctx.count("retrieve.exact")
            elif got == deviation_retrieve(model, keys, l):
                ctx.count("retrieve.known_deviation_K20")
                known_seen += 1
            else:
                ctx.fail("RETRIEVE", {"step": step, "lookup": lspec, "with_extra": with_extra,
                                      "stored": [[[[k, _show(v)] for k, v in mb.items()], mo] for mb, mo in model],
                                      "expected": sorted(map(str, s.elements())), "observed": sorted(map(str, got.elements()))})
                return
        if op[0] == "clear":
            if cache.cache or cache.seen_set.seen or cache.seen_set.all_seen:
                ctx.fail("CLEAR", {"step": step, "left": str(cache.cache)[:200]})
                return
    if known_seen and not ctx.extra.get("k20_reported"):
        ctx.extra["k20_reported"] = 1
        ctx.fail("RETRIEVE_DEVIATION_K20", {"history": case["ops"], "lookups_deviating_in_this_history": known_seen})
    ctx.sample({"nkeys": nkeys, "ops": case["ops"], "stored_at_end": len(model)}, limit=4)


def classify(f, ctx):
    return "K20" if f["kind"] == "RETRIEVE_DEVIATION_K20" else None
