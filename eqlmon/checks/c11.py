"""C11  Rule inference builds one instance per satisfying binding, from that binding.

infer(entity(T(f1=e1, ..., fn=en), body)) in rule mode, the e_i mentioning every variable of the rule.  Oracle: the
multiset over satisfying assignments of (T, identity-or-value of every field).  Results must be pairwise distinct new
objects of exactly type T whose object-valued fields are the very domain objects (`is`), never copies.
"""
from __future__ import annotations

import itertools
from collections import Counter
from dataclasses import dataclass
from typing import Any

from entity_query_language import symbol

from .. import classify as KF
from .. import cond as C
from .. import data as D
from .. import harness as H
from .. import multi

ID = "C11"
LEVEL = "exploration"
RULE = ("random rules over 1-3 variables: head V3(f1=x_first, f2=<attribute chain | method call | constant>, f3=x_last), "
        "optionally given positionally; a head argument that is a flattened expression also constrained by the body (one instance per element); a head argument expression that an earlier evaluated query used as its condition; a head argument concatenate(e.subs) / concatenate(p.items) over an already bound flattened element e of p (rule evaluated twice); or head W(v=Tag(o=x_first), g=x_first, h=..., l=x_last) whose nested term selects "
        "the existing Tag objects of that binding (given with From(tags) or through the registry; 0-2 tags per object); bodies of depth 0-3 with "
        "conjunction, disjunction (leaving head variables unbound on one side), negation, predicates, bodies with zero "
        "solutions; caching on and off; the head mentions every variable of the rule (the statement's premise). "
        "Non-trivial: between 1 and all-but-one assignments satisfy the body. distinct by structural hash.")
RULE += " Size cases (every tier): rules over 50-90 objects (one variable, or two joined) whose body compares two attributes of the same variable."
LEVEL_TEXT = ("Reference-model monitoring: the multiset of constructed instances (type, identity of object fields, value of "
              "scalar fields) is compared with the oracle; instances are checked to be new, pairwise distinct, of exactly "
              "the head type, holding the original domain objects.")
LEVEL_NOTE = "Trusted: oracle + translation. K05 attribution as in C02 (rule bodies use the operator caches)."
TECHNIQUE = "runtime monitoring: differential oracle on inferred instances (multiset, identity of fields), distinctness/type monitors"
ASSUMPTIONS = ["every variable of the rule occurs in the head", "no falsy field values (C19 covers them)"]


@symbol
@dataclass(eq=False)
class V3:
    f1: Any = None
    f2: Any = "default-of-f2"      # a non-None default: an argument whose VALUE is None must still arrive as None
    f3: Any = None


@symbol
@dataclass(eq=False)
class W:
    v: Any = None
    g: Any = None
    h: Any = None
    l: Any = None


@symbol
@dataclass(eq=False)
class Tag:
    o: Any = None
    n: Any = 0


def plan(tier, seed):
    n = 300 if tier == "quick" else 3500
    return [{"n": n, "sub": i} for i in range(16)]


def floors(tier):
    return {"distinct_nontrivial": 500, "cls:nested": 300, "cls:flat": 1000, "cls:body:or": 500, "cls:body:not": 100,
            "cls:zero_solutions": 100, "cls:positional": 100, "cls:nvars=2": 300, "cls:nvars=3": 300,
            "cls:caching_off": 300, "instances_checked": 5000, "cls:f2:const": 100, "cls:f2:call": 50, "cls:special:flatten": 150, "cls:special:preused_as_condition": 150,
            "cls:rule_variable_with_empty_domain": 100, "cls:special:subquery_head_argument": 150, "cls:special:concatenate_head_argument": 120, "cls:scale:rule_over_50_to_90_objects": 100, "cls:preceded_by_an_abandoned_evaluation": 1000,
            "cls:preceded_by_an_evaluation_under_the_other_caching_switch": 300}


def gen_case(rng):
    if rng.random() < 0.05:
        from .. import ix
        return {"concat_head": True, "world": ix.gen_world(rng), "k": rng.randint(0, 3), "of": rng.choice(["element", "element", "parent"]),
                "caching": rng.random() < 0.7, "kinds": ["P"], "cond": None, "nested": False, "special": None}
    if rng.random() < 0.06:
        return {"subquery_head": True, "world": D.random_world(rng, np_=(2, 4), nq=(2, 5), rich=False), "k": rng.randint(0, 2),
                "caching": rng.random() < 0.6, "kinds": ["Q", "Q", "P"], "cond": None, "nested": False, "special": None}
    nv = rng.choice([1, 2, 2, 3, 3])
    kinds = [rng.choice("PQ") for _ in range(nv)]
    world = D.random_world(rng, np_=(1, 4), nq=(1, 4))
    d = rng.choice([0, 1, 2, 2, 3])
    cond = C.gen_cond(rng, kinds, d, {"p_leaf": 0.2})
    big = rng.random() < 0.03
    if big:
        # SIZE: a rule over 50-90 objects (one variable, or two joined) whose body compares two attributes of the SAME variable
        nv = rng.choice([1, 1, 2])
        kinds = ["P"] if nv == 1 else ["P", "Q"]
        world = D.random_world(rng, np_=(50, 90), nq=(3, 6), hi=4, rich=False)
        A_ = lambda vi, f: ["v", vi, [["a", f]]]
        cond = ["cmp", "==", A_(0, "a"), A_(0, "b")]
        if nv == 2:
            cond = ["and", cond, ["cmp", rng.choice(["==", "<="]), A_(1, "a"), A_(0, "b")]]
        elif rng.random() < 0.5:
            cond = ["and", ["cmp", ">=", A_(0, "b"), ["lit", 1]], cond]
    mid = 1 if nv == 3 else rng.randrange(nv)
    k = rng.random()
    if nv == 3 or k < 0.6:
        paths = [[["a", "a"]], [["a", "b"]]] + ([[["a", "p"]], [["a", "p"], ["a", "a"]]] if kinds[mid] == "Q" else [[["c", "inc", []]]])
        f2 = ["v", mid, rng.choice(paths)]
    else:
        f2 = ["lit", rng.choice([1, 2, "c", 7])]
    special = None
    r = rng.random()
    if r < 0.12 and "P" in kinds and nv <= 2:      # (with 3 variables the middle one would not occur in the head)
        # a flattened expression in the head and in the body: one instance per element that satisfies the body
        special = {"kind": "flatten", "var": kinds.index("P"), "thr": rng.randint(0, 3), "order": rng.random() < 0.5}
        f2 = ["lit", "flattened-element"]
    elif r < 0.2:
        # the head argument is an expression object that an earlier, already evaluated query used as its condition
        vi = mid
        f2 = ["v", vi, ([["a", "p"]] if kinds[vi] == "Q" else []) + [["a", "flag"]]]
        special = {"kind": "preused_as_condition"}
    if big:
        special = None
        f2 = ["v", mid, [["a", "b"]]]
    nested = rng.random() < 0.3 and special is None and not big
    n0 = len(world[kinds[0]])
    tags = [[rng.randrange(n0), rng.randint(1, 3)] for _ in range(rng.randint(0, n0 + 2))] if nested else []
    empty_domain = rng.randrange(nv) if (rng.random() < 0.05 and special is None) else None
    return {"world": world, "kinds": kinds, "cond": cond, "f2": f2, "nested": nested, "tags": tags, "empty_domain": empty_domain,
            "take_first": rng.choice([0, 0, 1, 2]), "other_switch_first": rng.random() < 0.15,
            "nested_how": rng.choice(["from", "registry"]), "positional": rng.random() < 0.15, "caching": rng.random() < 0.7,
            "special": special, "big": big}


def cases(spec, ctx):
    for i in range(spec["n"]):
        yield gen_case(ctx.rng(spec["sub"], i))


def _enc(m, v):
    return m[id(v)] if id(v) in m else "val:" + repr(v)


def make_tags(case, world):
    objs = world[case["kinds"][0]]
    return [Tag(o=objs[i], n=n) for i, n in case.get("tags", [])]


def _doms(case, world):
    doms = H.domains(world, case["kinds"])
    if case.get("empty_domain") is not None:
        # a rule variable whose given domain is empty (instances of its type exist elsewhere): no assignment, no instance
        doms[case["empty_domain"]] = []
    return doms


def expected(case, world, tags=()):
    m = H.labels_of(world)
    doms = _doms(case, world)
    out = []
    for asg in itertools.product(*doms):
        sp = case.get("special") or {}
        if sp.get("kind") == "flatten":
            if C.holds(case["cond"], asg):
                for e in asg[sp["var"]].t:
                    if e > sp["thr"]:
                        out.append((m[id(asg[0])], _enc(m, e), m[id(asg[-1])]))
            continue
        if C.holds(case["cond"], asg):
            row = (m[id(asg[0])], _enc(m, C.ev(case["f2"], asg)), m[id(asg[-1])])
            if case["nested"]:
                # the nested term ranges over the existing Tag objects whose field equals the binding's value
                for ti, t in enumerate(tags):
                    if t.o is asg[0]:
                        out.append((f"T{ti}",) + row)
            else:
                out.append(row)
    return out


def run(case, world, caching, times=1, tags=()):
    from entity_query_language import entity, infer, From
    from entity_query_language.symbolic import rule_mode
    from entity_query_language.cache_data import enable_caching, disable_caching
    m = dict(H.labels_of(world))
    for ti, t in enumerate(tags):
        m[id(t)] = f"T{ti}"
    doms = _doms(case, world)
    (enable_caching if caching else disable_caching)()
    try:
        sp = case.get("special") or {}
        pre = None
        if sp.get("kind") == "preused_as_condition":
            from entity_query_language import symbolic_mode, an
            with symbolic_mode():
                xs = H.declare(case["kinds"], doms)
                shared_f2 = C.bval(case["f2"], xs)
                pre = an(entity(xs[case["f2"][1]], shared_f2))
            list(pre.evaluate())        # the expression object has now been evaluated in condition position
        if case["f2"][0] == "lit" and not case["nested"] and sp.get("kind") != "flatten" and isinstance(case["f2"][1], int):
            # another rule of the same process gives the same field a constant that is EQUAL for Python but a different value
            # (True / 1.0 / 2.0 ...): every head keeps its own constant
            decoy = {1: True, 2: 2.0, 7: 7.0}.get(case["f2"][1])
            if decoy is not None:
                with rule_mode():
                    ds = H.declare(case["kinds"], doms)
                    infer(entity(V3(f1=ds[0], f2=decoy, f3=ds[-1]), ds[0] == ds[0]))
        with rule_mode():
            if pre is None:
                xs = H.declare(case["kinds"], doms)
            f1, f2, f3 = xs[0], (shared_f2 if pre is not None else C.bval(case["f2"], xs)), xs[-1]
            extra_conds = []
            if sp.get("kind") == "flatten":
                from entity_query_language.entity import flatten
                f2 = flatten(xs[sp["var"]].t)
                extra_conds = [f2 > sp["thr"]]
            if case["nested"]:
                term = Tag(From(list(tags)), o=xs[0]) if case["nested_how"] == "from" else Tag(o=xs[0])
                head = W(v=term, g=f1, h=f2, l=f3)
            else:
                head = V3(f1, f2, f3) if case["positional"] else V3(f1=f1, f2=f2, f3=f3)
            body = [C.build(case["cond"], xs, 0, False)]
            body = extra_conds + body if sp.get("order") else body + extra_conds
            q = infer(entity(head, *body))
        outs = []
        if case.get("other_switch_first"):      # an earlier COMPLETE evaluation while the caching switch was the other way round
            (disable_caching if caching else enable_caching)()
            for _ in q.evaluate():
                pass
            (enable_caching if caching else disable_caching)()
        if case.get("take_first"):      # an earlier evaluation of the rule that is left after a few instances
            it = q.evaluate()
            for _ in range(case["take_first"]):
                if next(it, None) is None:
                    break
            it.close()
        for _ in range(times):
            rows, problems, objs = [], [], []
            for o in q.evaluate():
                objs.append(o)
                if case["nested"]:
                    if type(o) is not W:
                        problems.append("result is a " + type(o).__name__)
                        continue
                    if type(o.v) is not Tag or id(o.v) not in m:
                        problems.append("nested field is not one of the existing Tag objects: " + type(o.v).__name__)
                        continue
                    rows.append((m[id(o.v)], _enc(m, o.g), _enc(m, o.h), _enc(m, o.l)))
                    continue
                if type(o) is not V3:
                    problems.append("result is a " + type(o).__name__)
                    continue
                rows.append((_enc(m, o.f1), _enc(m, o.f2), _enc(m, o.f3)))
            if len(set(map(id, objs))) != len(objs):
                problems.append("the same instance was returned twice")
            if any(id(o) in m for o in objs):
                problems.append("an existing object was returned instead of a new instance")
            outs.append((rows, problems))
        return outs
    finally:
        enable_caching()


def check_subquery_head_case(case, ctx):
    """rule head with a nested QUERY as an argument: V3(f1=x, f2=an(entity(y, or_(y == x.p, and_(z.a == x.a, y == z.p)))), f3=x);
    the same rule object is evaluated three times: new instances every time, the same field values every time"""
    from entity_query_language import entity, infer, an, let, or_, and_
    from entity_query_language.symbolic import rule_mode
    from entity_query_language.cache_data import enable_caching, disable_caching
    world = D.build_world(case["world"])
    m = H.labels_of(world)
    ps, qs = world["P"], world["Q"]
    ctx.cls("cls:special:subquery_head_argument")
    ctx.cls("cls:caching_on" if case["caching"] else "cls:caching_off")
    exp = sorted({(m[id(x)], m[id(y)]) for x in qs for y in ps
                  if x.a > case["k"] and (y is x.p or any(z.a == x.a and z.p is y for z in qs))})
    if len(exp) >= 2:
        ctx.nontrivial()
    (enable_caching if case["caching"] else disable_caching)()
    try:
        with rule_mode():
            x, z, y = let(D.Q, qs), let(D.Q, qs), let(D.P, ps)
            part = an(entity(y, or_(y == x.p, and_(z.a == x.a, y == z.p))))
            rule = infer(entity(V3(f1=x, f2=part, f3=x), x.a > case["k"]))
        seen = set()
        keep = []
        for rnd in range(3):
            res = list(rule.evaluate())
            keep.extend(res)
            ctx.count("instances_checked", len(res))
            got = sorted({(H.lab(m, r.f1), H.lab(m, r.f2)) for r in res if type(r) is V3})
            if got != exp or any(type(r) is not V3 or r.f3 is not r.f1 for r in res):
                ctx.fail("SUBQUERY_HEAD", {"evaluation": rnd + 1, "missing": sorted(set(exp) - set(got))[:6], "extra": sorted(set(got) - set(exp))[:6],
                                           "n_expected": len(exp), "n_observed": len(got)})
                return
            if any(id(r) in seen for r in res):
                ctx.fail("INSTANCE", {"problems": ["an instance of an earlier evaluation was handed out again"], "evaluation": rnd + 1})
                return
            seen.update(map(id, res))
    except Exception as e:
        import traceback
        ctx.fail("EXC", f"{type(e).__name__}: {e}\n{traceback.format_exc()[-800:]}")
    finally:
        enable_caching()
    ctx.sample({"subquery_head": True, "k": case["k"], "expected": exp[:4]})


def check_concat_head_case(case, ctx):
    """rule head with a concatenate(...) argument collected over an attribute of an already bound flattened element (or of the
    bound parent): V3(f1=p, f2=concatenate(e.subs), f3=e) with e = flatten(p.items); all three fields come from ONE assignment.
    The same rule object is evaluated twice."""
    from entity_query_language import entity, infer, let
    from entity_query_language.entity import flatten, concatenate
    from entity_query_language.symbolic import rule_mode
    from entity_query_language.cache_data import enable_caching, disable_caching
    from .. import ix
    es, ps = ix.build_world(case["world"])
    ctx.cls("cls:special:concatenate_head_argument")
    ctx.cls("cls:caching_on" if case["caching"] else "cls:caching_off")
    of = case["of"]
    exp = Counter((pi, x.n, tuple(y.n for y in (x.subs if of == "element" else p.items)))
                  for pi, p in enumerate(ps) for x in p.items if x.n > case["k"])
    if len(set(k[2] for k in exp)) >= 2:
        ctx.nontrivial()
    (enable_caching if case["caching"] else disable_caching)()
    try:
        with rule_mode():
            p = let(ix.Par, ps)
            e = flatten(p.items)
            coll = concatenate(e.subs if of == "element" else p.items)
            rule = infer(entity(V3(f1=p, f2=coll, f3=e), e.n > case["k"]))
        for rnd in range(2):
            res = list(rule.evaluate())
            ctx.count("instances_checked", len(res))
            pidx = {id(p_): i for i, p_ in enumerate(ps)}
            bad = [type(r).__name__ for r in res if type(r) is not V3 or id(r.f1) not in pidx or type(r.f3) is not ix.E]
            if bad:
                ctx.fail("INSTANCE", {"problems": ["not an instance built from the domain objects: " + bad[0]], "evaluation": rnd + 1})
                return
            got = Counter((pidx[id(r.f1)], r.f3.n, tuple(getattr(y, "n", "?") for y in r.f2)) for r in res)
            if got != exp:
                ctx.fail("CONCAT_HEAD", {"evaluation": rnd + 1, "of": of, "missing": sorted((exp - got).elements())[:6],
                                         "extra": sorted((got - exp).elements())[:6]})
                return
    except Exception as e_:
        import traceback
        ctx.fail("EXC", f"{type(e_).__name__}: {e_}\n{traceback.format_exc()[-800:]}")
    finally:
        enable_caching()
    ctx.sample({"concat_head": True, "k": case["k"], "of": of, "expected": sorted(exp)[:3]})


def check_case(case, ctx):
    if case.get("subquery_head"):
        return check_subquery_head_case(case, ctx)
    if case.get("concat_head"):
        return check_concat_head_case(case, ctx)
    world = D.build_world(case["world"])
    tags = make_tags(case, world)
    exp = expected(case, world, tags)
    nv = len(case["kinds"])
    ctx.cls(f"cls:nvars={nv}")
    if case.get("big"):
        ctx.cls("cls:scale:rule_over_50_to_90_objects")
    ctx.cls("cls:nested" if case["nested"] else "cls:flat")
    if case.get("empty_domain") is not None:
        ctx.cls("cls:rule_variable_with_empty_domain")
    if case.get("other_switch_first"):
        ctx.cls("cls:preceded_by_an_evaluation_under_the_other_caching_switch")
    if case.get("take_first"):
        ctx.cls("cls:preceded_by_an_abandoned_evaluation")
    ctx.cls("cls:caching_on" if case["caching"] else "cls:caching_off")
    if case["positional"]:
        ctx.cls("cls:positional")
    shape = C.shape_tags(case["cond"])
    if shape & {"or", "|"}:
        ctx.cls("cls:body:or")
    if shape & {"not", "~"}:
        ctx.cls("cls:body:not")
    if not exp:
        ctx.cls("cls:zero_solutions")
    ctx.cls("cls:f2:const" if case["f2"][0] == "lit" else "cls:f2:call" if any(s[0] == "c" for s in case["f2"][2]) else "cls:f2:attr")
    if 0 < len(exp) and (case["nested"] or len(exp) < H.count_product(world, case["kinds"])):
        ctx.nontrivial()
    if case["nested"]:
        ctx.cls("cls:nested:" + case["nested_how"])
    if case.get("special"):
        ctx.cls("cls:special:" + case["special"]["kind"])
    try:
        rows, problems = run(case, world, case["caching"], tags=tags)[0]
    except Exception as e:
        import traceback
        ctx.fail("EXC", f"{type(e).__name__}: {e}\n{traceback.format_exc()[-800:]}")
        return
    ctx.count("instances_checked", len(rows))
    if problems:
        ctx.fail("INSTANCE", {"problems": problems[:5]})
    if Counter(rows) != Counter(exp):
        miss = list((Counter(exp) - Counter(rows)).elements())
        extra = list((Counter(rows) - Counter(exp)).elements())
        kind = "SET:missing" if miss and not extra and set(rows) <= set(exp) and not (Counter(rows) - Counter(exp)) else \
            "INSTANCES:" + ("missing" if miss else "") + ("+extra" if extra else "")
        ctx.fail(kind, {"missing": miss[:8], "extra": extra[:8], "n_expected": len(exp), "n_observed": len(rows)})
    ctx.sample({"kinds": case["kinds"], "body": case["cond"], "f2": case["f2"], "nested": case["nested"],
                "expected": exp[:4], "observed": rows[:4]})


def classify(f, ctx):
    if f["kind"] != "SET:missing" or f["case"].get("subquery_head") or f["case"].get("concat_head"):
        return None
    case = f["case"]
    world = D.build_world(case["world"])
    tags = make_tags(case, world)
    exp = expected(case, world, tags)
    def fresh_run(caching):
        # the counterfactual runs start from a cleared registry: the world and the tags have to be created again
        w = D.build_world(case["world"])
        return run(case, w, caching, tags=make_tags(case, w))[0][0]

    r = KF.attribute(f, fresh_run, exp, mentioned_not_selected=False,
                     compare=_missing_only, nvars=len(case["kinds"]))
    return r if r == "K05" else None


def _missing_only(got, exp):
    """instances are a multiset: 'rows missing' also when only a second copy of an equal-valued instance is missing"""
    g, e = Counter(got), Counter(exp)
    if g == e:
        return None
    return "SET:missing" if not (g - e) else "OTHER"
