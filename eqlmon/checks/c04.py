"""C04  A query's answer does not depend on what was evaluated before it.

A history is run over a pool of 2-3 queries that share their variables.  Operations: evaluate fully; take k results
then close(); take k and keep the iterator alive; take k, drop the last reference and gc.collect(); evaluate while a
user @predicate raises at its j-th call; the(...) over the same description (may raise Multiple/NoSolution);
re-evaluate.  The recorded history log is checked offline: every full evaluation (and every row taken from a partial
one) must agree with the fresh-evaluation oracle, domains that list an object twice must give the same answer on the
first and on every later evaluation, user lists and objects must be unchanged.
"""
from __future__ import annotations

import gc
import itertools
from collections import Counter

from .. import classify as KF
from .. import cond as C
from .. import data as D
from .. import harness as H
from .. import monitors as M
from .. import multi

ID = "C04"
LEVEL = "exploration"
RULE = ("random histories of 4-10 operations {full, take k+close, take k+keep alive, take k+drop+gc, evaluate while a "
        "user predicate raises at its j-th call, the(...), re-evaluate} over a pool of 2-3 queries sharing 2-3 "
        "variables (a tenth of the pools also share one attribute expression object used as condition / operand / selected output; a fifth are rule-tree queries, with raising evaluations among the operations and, for part of them, conclusions that carry a nested query and read a raising property; a sixth are shapes judged against a fresh twin: next_rule trees, keyword-constrained registry variables, concatenate / flatten over a sub-query, block-style predicate terms, feature-interaction queries of eqlmon/ix.py (part of them with empty inner collections and a for_all over them), one concatenate object shared by two queries, one sub-query given as the domain of two queries' variables with evaluations aborted by a predicate inside it) (depth<=3 conditions, random selections), caching on and off, with and without a domain listing an "
        "object twice; every full evaluation and a final full evaluation of every pool query is compared with the "
        "oracle. Non-trivial: the history contains at least one interrupting operation (partial / raising) before a "
        "full evaluation of a query whose oracle result is neither empty nor the whole product.")
RULE += " Size cases (every tier): pools of 2-3 queries over one variable with 120-400 objects (alternatives, so that hundreds of rows pass de-duplicating nodes), full and partial evaluations in turn."
RULE += ' Faulty domains (every tier): in 15% of the pool cases every given domain is a re-iterable user collection whose own walk raises at its j-th member when armed (an evaluation aborted by the DOMAIN, not by a predicate), after which every query of the pool must answer as from a clean state.'
LEVEL_TEXT = ("Offline checker over recorded histories of API calls on the real objects: after arbitrary earlier evaluations "
              "(completed, abandoned, closed, garbage collected, aborted by an exception from user code) every query must "
              "return its fresh-evaluation result; domain lists and objects are snapshotted and compared. The node "
              "monitor counts generator unwinds so that a run in which nothing was actually interrupted is inconclusive.")
LEVEL_NOTE = ("Trusted: the oracle; the fault-injecting predicate (raises at its j-th call). Histories are bounded (<=10 ops, "
              "<=3 queries); K05/K02 are attributed by re-running the whole history with caching off / dedup off.")
TECHNIQUE = "runtime monitoring: offline history checker against a reference model, fault injection through a user predicate, generator-unwind monitor"
ASSUMPTIONS = [
    "data is unchanged during a history (the check itself verifies the library does not change it)",
    "queries of a pool share variables but never share a condition expression object",
]


def plan(tier, seed):
    n = 130 if tier == "quick" else 1500
    return [{"n": n, "sub": i} for i in range(16)]


def floors(tier):
    return {"distinct_nontrivial": 200, "unwind.close": 200, "unwind.exc": 50, "op:full": 500, "op:take": 100,
            "op:abandon": 100, "op:drop": 100, "op:boom_raised": 50, "cls:domain_walk_raised": 30, "op:the": 50, "cls:dup_domain": 50,
            "cls:caching_off": 100, "cache.check.hit": 500, "cls:ruletree_history": 100, "cls:shared_expression_pool": 60, "cls:twin:nexttree": 30, "cls:twin:kwvar": 30, "cls:variable_whose_domain_has_no_instance": 60, "cls:twin:concat": 25, "cls:twin:flatsub": 25, "cls:twin:sharedconc": 20, "cls:twin:blockstyle": 20, "cls:twin:shareddomain": 40, "cls:scale:big_pool": 60, "cls:twin:ix_with_empty_collections": 400, "cls:twin:ix": 40}


def cases(spec, ctx):
    from . import c12
    for i in range(spec["n"]):
        rng = ctx.rng(spec["sub"], i)
        if rng.random() < 0.16:
            # query shapes whose answer is defined by a FRESH twin (built and evaluated once): a rule tree with next_rule
            # (its "also" semantics is outside C12) and a rule over domain-less variables with keyword constraints
            ops = []
            for _ in range(rng.randint(2, 6)):
                kind = rng.choice(["full", "full", "take", "abandon", "drop"])
                ops.append([kind, 0] if kind == "full" else [kind, 0, rng.randint(1, 3)])
            twin = rng.choice(["nexttree", "kwvar", "concat", "flatsub", "sharedconc", "blockstyle", "ix", "ix", "shareddomain", "shareddomain"] + ["ixforall"] * 7)
            if twin == "kwvar":
                # an iterator that is kept alive but never advanced again is beyond the quantifier ("take k results then
                # close"): a keyword-constrained variable marks itself while its constraints are being evaluated and a
                # suspended evaluation holds that mark (DESIGN 9.5) - closed and dropped iterators are in scope
                ops = [["take"] + o[1:] if o[0] == "abandon" else o for o in ops]
            if twin in ("ix", "ixforall"):
                from .. import ix
                ixc = ix.gen_case(rng)
                if twin == "ixforall":
                    # a universal statement over the element's own collection, some of these collections empty
                    twin = "ix"
                    for _ in range(300):
                        if ix.tags(ixc) & {"forall_subs", "forall_subs_pred", "forall_subs_vs_d"}:
                            break
                        ixc = ix.gen_case(rng)
                if rng.random() < 0.4 or ix.tags(ixc) & {"forall_subs", "forall_subs_pred", "forall_subs_vs_d"}:
                    # (only here, where the answer is defined by a fresh twin and not by the oracle: elements whose own collection
                    #  is EMPTY - what a for_all over no value at all means is not judged, that it means the same every time is)
                    for j in rng.sample(range(len(ixc["world"]["subs"])), rng.randint(1, 3)):
                        ixc["world"]["subs"][j] = []
                    ixc["empty_collections"] = True
                yield {"twin": twin, "ops": ops, "caching": rng.random() < 0.65, "ix": ixc, "data": [], "conds": [["a", 0], ["a", 0]],
                       "links": []}
                continue
            yield {"twin": twin, "ops": ops, "caching": rng.random() < 0.65,
                   "data": [[rng.randint(1, 4) for _ in range(3)] for _ in range(rng.randint(3, 6))],
                   "conds": [[rng.choice("abc"), rng.randint(0, 3)], [rng.choice("abc"), rng.randint(0, 3)]],
                   "links": [[rng.randrange(6), rng.randrange(6)] for _ in range(rng.randint(2, 5))]}
            continue
        if rng.random() < 0.1:
            # queries of a pool may also share an attribute EXPRESSION object, used as a condition by one and as a value
            # (comparison operand / selected output) by another
            uses = [rng.choice(["condition", "operand", "selected"]) for _ in range(rng.randint(2, 3))]
            ops = []
            for _ in range(rng.randint(3, 8)):
                kind = rng.choice(["full", "full", "full", "take", "drop"])
                qi = rng.randrange(len(uses))
                ops.append([kind, qi] if kind == "full" else [kind, qi, rng.randint(1, 2)])
            yield {"shared_expr": {"attr": rng.choice(["flag", "flag", "a"]), "uses": uses},
                   "world": D.random_world(rng, np_=(3, 6), nq=(1, 2)), "ops": ops, "caching": rng.random() < 0.65}
            continue
        if rng.random() < 0.2:
            ops = []
            for _ in range(rng.randint(2, 6)):
                # "raise": an evaluation in which user code (a property read by a branch condition or while a conclusion's value
                # is built) raises at its k-th call
                kind = rng.choice(["full", "full", "take", "abandon", "drop", "raise"])
                ops.append([kind, 0] if kind == "full" else [kind, 0, rng.randint(1, 6 if kind == "raise" else 3)])
            rt = c12.gen_case(rng)
            if rng.random() < 0.4:
                # conclusions that carry a nested query and read a property (which the "raise" operation makes fail)
                rt["concl_subq"] = True
                rt["pool"] = [[v, rng.randint(1, 4), rng.random() < 0.4] for v in (1, 2, 3, 4)]
                if not any(o[0] == "raise" for o in ops):
                    ops.insert(rng.randrange(len(ops) + 1), ["raise", 0, rng.randint(1, 6)])
            yield {"ruletree": rt, "ops": ops, "caching": rng.random() < 0.65}
            continue
        if rng.random() < 0.03:
            # SIZE: a pool of 2-3 queries over ONE variable with 120-400 objects (conditions with alternatives, so that more than
            # a hundred rows go through de-duplicating nodes and operator caches), full evaluations and partial ones in turn
            world = D.random_world(rng, np_=(120, 400), nq=(1, 2), hi=9, rich=False)
            A_ = lambda f: ["v", 0, [["a", f]]]
            pool = []
            for _ in range(rng.randint(2, 3)):
                c1 = ["cmp", rng.choice(["<", "<=", ">", ">=", "!="]), A_("a"), rng.choice([A_("b"), ["lit", rng.randint(2, 7)]])]
                c2 = ["cmp", rng.choice(["<", "<=", ">", ">=", "!="]), A_("b"), ["lit", rng.randint(2, 7)]]
                pool.append({"cond": [rng.choice(["or", "and", "or"]), c1, c2], "sel": [0], "fault": False})
            ops = []
            for _ in range(rng.randint(4, 8)):
                kind = rng.choice(["full", "full", "full", "take", "drop"])
                qi = rng.randrange(len(pool))
                ops.append([kind, qi] if kind == "full" else [kind, qi, rng.randint(1, 3)])
            yield {"world": world, "kinds": ["P"], "pool": pool, "ops": ops, "caching": rng.random() < 0.8, "dup": None, "no_instance": None,
                   "scale": "big_pool"}
            continue
        nv = rng.choice([2, 2, 3])
        kinds = [rng.choice("PQ") for _ in range(nv)]
        world = D.random_world(rng, np_=(2, 4), nq=(2, 4))
        pool = []
        for _ in range(rng.randint(2, 3)):
            cond = C.gen_cond(rng, kinds, rng.randint(1, 3), {"p_leaf": 0.2})
            sel = rng.sample(range(nv), rng.randint(1, nv)) if rng.random() < 0.5 else list(range(nv))
            fault = rng.random() < 0.5
            if fault:
                # user code that raises in the middle of an evaluation: a predicate, or a property read by a comparison
                inj = ["fpred", "f_ok", [["v", sel[0], []]]] if rng.random() < 0.6 else \
                    ["cmp", ">=", ["v", sel[0], [["a", "fa"]]], ["lit", 0]]
                cond = ["and", cond, inj] if rng.random() < 0.7 else ["and", inj, cond]
            pool.append({"cond": cond, "sel": sel, "fault": fault})
        if rng.random() < 0.12:
            # the same decorated predicate at two sites: over two different attribute VALUES of the same objects, the other
            # arguments alike - what one site computed must not answer for the other
            k_ = rng.randint(1, 3)
            vi = rng.randrange(nv)
            twin_sel = pool[0]["sel"]
            pool[0] = {"cond": ["fpred", "f_vge", [["v", vi, [["a", "a"]]], ["lit", k_]]], "sel": twin_sel, "fault": False}
            pool[1] = {"cond": ["fpred", "f_vge", [["v", vi, [["a", "b"]]], ["lit", k_]]], "sel": twin_sel, "fault": False}
        ops = []
        for _ in range(rng.randint(4, 10)):
            qi = rng.randrange(len(pool))
            kind = rng.choice(["full", "full", "take", "abandon", "drop", "boom", "the"])
            if kind == "boom" and not pool[qi]["fault"]:
                kind = "take"
            if kind in ("take", "abandon", "drop"):
                ops.append([kind, qi, rng.randint(1, 3)])
            elif kind == "boom":
                ops.append([kind, qi, rng.randint(1, 4)])
            else:
                ops.append([kind, qi])
        flaky = rng.random() < 0.15
        if flaky:
            # the given domains are re-iterable user collections whose WALK raises once when armed: every query can "boom"
            for p_ in pool:
                p_["fault"] = True
            ops = [(["boom", o[1], rng.randint(1, 5)] if o[0] == "take" and rng.random() < 0.5 else o) for o in ops]
            if not any(o[0] == "boom" for o in ops):
                ops.insert(rng.randrange(len(ops)), ["boom", rng.randrange(len(pool)), rng.randint(1, 4)])
        dup = (not flaky) and rng.random() < 0.25
        no_instance = rng.randrange(nv) if (not dup and rng.random() < 0.08) else None
        if no_instance is not None:
            # (and-only conditions: a disjunction whose other alternative does not mention the empty variable is DESIGN 9.5)
            for p_ in pool:
                p_["cond"] = ["and", ["cmp", ">=", ["v", no_instance, [["a", "a"]]], ["lit", 0]], ["cmp", ">", ["v", p_["sel"][0], [["a", "b"]]], ["lit", rng.randint(0, 2)]]]
                p_["fault"] = False
            ops = [o if o[0] != "boom" else ["take", o[1], 1] for o in ops]
        yield {"world": world, "kinds": kinds, "pool": pool, "ops": ops, "caching": rng.random() < 0.65,
               "dup": [rng.randrange(4), rng.randrange(4)] if dup else None, "no_instance": no_instance, "flaky_dom": flaky}


def _doms(case, world):
    doms = H.domains(world, case["kinds"])
    if case.get("dup"):
        # one shared list per kind, an existing object listed a second time at the end
        per_kind = {}
        for k in set(case["kinds"]):
            objs = list(world[k])
            objs.append(objs[case["dup"][0 if k == "P" else 1] % len(objs)])
            per_kind[k] = objs
        doms = [per_kind[k] for k in case["kinds"]]
    if case.get("no_instance") is not None:
        # one variable's given domain holds no object of its type (objects of that type exist elsewhere in the process)
        i = case["no_instance"]
        doms[i] = list(world["Q" if case["kinds"][i] == "P" else "P"])
    if case.get("flaky_dom"):
        doms = [D.FlakyCollection(d) for d in doms]
    return doms


def run_history(case, world, caching):
    """Runs the history on the real code.  Returns (log, failures)."""
    from entity_query_language import symbolic_mode, an, the, set_of, MultipleSolutionFound, NoSolutionFound
    from entity_query_language.cache_data import enable_caching, disable_caching
    m = H.labels_of(world)
    doms = _doms(case, world)
    dom_snap = [list(d) for d in doms]
    obj_snap = [(o, dict(vars(o))) for objs in world.values() for o in objs]
    kinds = case["kinds"]
    (enable_caching if caching else disable_caching)()
    log, failures, keep = [], [], []
    first_full = {}
    try:
        with symbolic_mode():
            xs = H.declare(kinds, doms)
            queries, the_queries = [], []
            for p in case["pool"]:
                queries.append(an(set_of([xs[i] for i in p["sel"]], C.build(p["cond"], xs, 0, True))))
                the_queries.append(the(set_of([xs[i] for i in p["sel"]], C.build(p["cond"], xs, 0, False))))
        exp = []
        for p in case["pool"]:
            cc = {"world": case["world"], "kinds": kinds, "cond": p["cond"], "sel": p["sel"]}
            rows = []
            import itertools
            # oracle over the distinct objects (a duplicate listing does not create new assignments)
            for asg in itertools.product(*[list(world[k]) for k in kinds]):
                if case.get("no_instance") is not None and (case["no_instance"] in p["sel"] or case["no_instance"] in C.mentioned(p["cond"])):
                    break       # a query that involves the variable without values has no rows, on every evaluation
                if C.holds(p["cond"], asg):
                    rows.append(tuple(m[id(asg[i])] for i in p["sel"]))
            exp.append((rows, multi.all_selected(cc)))

        def enc(r, p):
            return tuple(H.lab(m, r[xs[i]]) for i in p["sel"])

        def judge(step, qi, got, what):
            rows, allsel = exp[qi]
            k = H.diff_kind(got, rows, ordered=False, multiset=allsel and not case.get("dup"))
            if k:
                failures.append({"step": step, "query": qi, "what": what, "kind": k,
                                 "missing": sorted(set(rows) - set(got))[:6], "extra": sorted(set(got) - set(rows))[:6],
                                 "n_expected": len(rows), "n_observed": len(got)})
            if case.get("dup"):
                if qi in first_full:
                    same = Counter(first_full[qi]) == Counter(got) if allsel else set(first_full[qi]) == set(got)
                    if not same:
                        failures.append({"step": step, "query": qi, "what": what, "kind": "FIRST_VS_LATER",
                                         "first": len(first_full[qi]), "later": len(got)})
                else:
                    first_full[qi] = list(got)

        ops = list(case["ops"]) + [["full", qi] for qi in range(len(queries))]
        for step, op in enumerate(ops):
            kind, qi = op[0], op[1]
            q, p = queries[qi], case["pool"][qi]
            D.arm_fault(None)
            if kind == "full":
                got = [enc(r, p) for r in q.evaluate()]
                log.append([kind, qi, len(got)])
                judge(step, qi, got, "full")
            elif kind in ("take", "abandon", "drop"):
                it = q.evaluate()
                taken = []
                for _ in range(op[2]):
                    try:
                        taken.append(enc(next(it), p))
                    except StopIteration:
                        break
                log.append([kind, qi, len(taken)])
                stray = [r for r in taken if r not in set(exp[qi][0])]
                if stray:
                    failures.append({"step": step, "query": qi, "what": kind, "kind": "PARTIAL_ROW_NOT_A_SOLUTION", "rows": stray[:4]})
                if kind == "take":
                    it.close()
                elif kind == "abandon":
                    keep.append(it)
                else:
                    del it
                    gc.collect()
            elif kind == "boom":
                D.arm_fault(op[2])
                try:
                    got = [enc(r, p) for r in q.evaluate()]
                    raised = False
                except D.Boom:
                    raised = True
                finally:
                    D.arm_fault(None)
                log.append([kind, qi, "raised" if raised else len(got)])
                if not raised:
                    judge(step, qi, got, "boom(not reached)")
            elif kind == "the":
                try:
                    the_queries[qi].evaluate()
                    log.append([kind, qi, "value"])
                except MultipleSolutionFound:
                    log.append([kind, qi, "multiple"])
                except NoSolutionFound:
                    log.append([kind, qi, "none"])
        if [list(d) for d in doms] != dom_snap or any(len(a) != len(b) or any(x is not y for x, y in zip(a, b))
                                                       for a, b in zip([list(d) for d in doms], dom_snap)):
            failures.append({"what": "end", "kind": "DOMAIN_MUTATED"})
        for o, snap in obj_snap:
            now = dict(vars(o))
            if now.keys() != snap.keys() or any(now[k] is not snap[k] and now[k] != snap[k] for k in snap):
                failures.append({"what": "end", "kind": "OBJECT_MUTATED", "object": repr(o)})
                break
    finally:
        D.arm_fault(None)
        enable_caching()
        keep.clear()
    return log, failures, exp


def run_ruletree_history(case, caching):
    from . import c12
    from entity_query_language.cache_data import enable_caching, disable_caching
    rt = case["ruletree"]
    objs = c12._objs(rt)
    exp = c12.expected(rt, objs)
    idx = {id(o): i for i, o in enumerate(objs)}
    (enable_caching if caching else disable_caching)()
    log, failures, keep = [], [], []
    try:
        q = c12.build(rt, objs)
        for step, op in enumerate(list(case["ops"]) + [["full", 0]]):
            if op[0] == "full":
                got = [c12.encode(o, idx) for o in q.evaluate()]
                log.append(["full", 0, len(got)])
                if Counter(got) != Counter(exp):
                    miss = list((Counter(exp) - Counter(got)).elements())
                    extra = list((Counter(got) - Counter(exp)).elements())
                    failures.append({"step": step, "what": "full", "kind": "CONCLUSIONS:" + ("missing" if miss else "") + ("+extra" if extra else ""),
                                     "missing": miss[:6], "extra": extra[:6], "n_expected": len(exp), "n_observed": len(got)})
            elif op[0] == "raise":
                D.arm_fault(op[2])
                try:
                    n_ = sum(1 for _ in q.evaluate())
                    log.append(["raise:not_reached", 0, n_])
                except D.Boom:
                    log.append(["raise", 0, op[2]])
                finally:
                    D.arm_fault(None)
            else:
                it = q.evaluate()
                taken = []
                for _ in range(op[2]):
                    try:
                        taken.append(c12.encode(next(it), idx))
                    except StopIteration:
                        break
                log.append([op[0], 0, len(taken)])
                if Counter(taken) - Counter(exp):
                    failures.append({"step": step, "what": op[0], "kind": "PARTIAL_ROW_NOT_A_SOLUTION", "rows": taken[:4]})
                if op[0] == "take":
                    it.close()
                elif op[0] == "abandon":
                    keep.append(it)
                else:
                    del it
                    gc.collect()
    finally:
        enable_caching()
        keep.clear()
    return log, failures, exp


def check_ruletree_case(case, ctx):
    ctx.cls("cls:ruletree_history")
    ctx.cls("cls:caching_on" if case["caching"] else "cls:caching_off")
    try:
        log, failures, exp = run_ruletree_history(case, case["caching"])
    except Exception as e:
        import traceback
        ctx.fail("EXC", f"{type(e).__name__}: {e}\n{traceback.format_exc()[-1200:]}")
        return
    interrupted = False
    for entry in log:
        ctx.cls("op:" + entry[0])
        if entry[0] != "full":
            interrupted = True
    if interrupted and len({t for t, _ in exp}) >= 2:
        ctx.nontrivial()
    for f in failures:
        ctx.fail(f["kind"], {"history_log": log, **f})
    ctx.sample({"ruletree": case["ruletree"], "ops": case["ops"], "history_log": log})


from dataclasses import dataclass as _dataclass
from typing import Any as _Any
from entity_query_language import Predicate as _Predicate


@_dataclass(eq=False)
class NGt(_Predicate):
    """Predicate term over a c12.N object: its first argument is bound implicitly inside the block of a query"""
    x: _Any
    attr: _Any
    k: _Any

    def __call__(self):
        return getattr(self.x, self.attr) > self.k


_USER_LISTS = []      # [parents, snapshot of their lists] of the twin case being run (kept out of the JSON-able case)


def _twin_builder(case):
    """-> (build() -> query, encode(result) -> hashable)"""
    from entity_query_language import symbolic_mode, let, entity, infer, Add, a
    from entity_query_language.rule import next_rule
    from entity_query_language.symbolic import rule_mode
    from . import c12
    objs = [c12.N(*v) for v in case["data"]]
    idx = {id(o): i for i, o in enumerate(objs)}
    (a1, t1), (a2, t2) = case["conds"]
    if case["twin"] in ("concat", "flatsub"):
        # a selected expression over a sub-query with alternatives: concatenate / flatten of its inner collections
        from entity_query_language import an, set_of, or_
        from entity_query_language.entity import concatenate, flatten
        from . import c16
        es = [c16.E(i + 1) for i in range(5)]
        pars = [c16.Par(v[0], [es[(v[1] + j) % 5] for j in range(v[2] - 1)]) for v in case["data"]]
        _USER_LISTS[:] = [pars, [list(p_.items) for p_ in pars]]
        eidx = {id(e): i for i, e in enumerate(es)}
        pidx = {id(p_): i for i, p_ in enumerate(pars)}

        def build():
            with symbolic_mode():
                p = let(c16.Par, pars)
                sub = an(entity(p, or_(p.k > t1, p.k == t2)))
                if case["twin"] == "concat":
                    return an(entity(concatenate(sub.items)))
                f = flatten(sub.items)
                q = an(set_of([sub, f]))
                q._enc_keys = (sub, f)
                return q

        def enc(r):
            if case["twin"] == "concat":
                return tuple(eidx.get(id(x), -1) for x in r)
            vals = list(r.values())
            return tuple(sorted((pidx.get(id(v), -1), eidx.get(id(v), -1)) for v in vals))
        return build, enc
    if case["twin"] == "ix":
        # a feature-interaction query (eqlmon/ix.py) as the subject of the history
        from .. import ix
        es, ps = ix.build_world(case["ix"]["world"])
        encs = []

        def build():
            q, enc_ = ix.build(case["ix"], es, ps)
            encs[:] = [enc_]
            return q
        return build, lambda r: encs[0](r)
    if case["twin"] == "blockstyle":
        # a query that gets predicate terms in its own block (`with an(entity(x, cond)) as q: HasType(..); CGt(k)`)
        from entity_query_language import an, HasType

        def build():
            with symbolic_mode():
                x = let(c12.N, objs)
                with an(entity(x, getattr(x, a1) > t1)) as q:
                    HasType(c12.N)
                    NGt(a2, t2)
            return q
        return build, lambda o: idx.get(id(o), -1)
    if case["twin"] == "nexttree":
        def build():
            with symbolic_mode():
                x = let(c12.N, objs)
                y = let(c12.N, objs)
                out = let(c12.Out)
                q = infer(entity(out, getattr(x, a1) > t1))
            with rule_mode(q):
                Add(out, c12.Out(tag="base", src=x))
                with next_rule(getattr(y, a2) > t2):
                    Add(out, c12.Out(tag="next", src=y))
            return q
        return build, lambda o: (type(o).__name__, getattr(o, "tag", None), idx.get(id(getattr(o, "src", None)), -1))
    links = [c12.L(src=objs[i % len(objs)], w=objs[j % len(objs)]) for i, j in case["links"]]     # w holds a second item

    def build():
        with rule_mode():
            q = infer(c12.Out(tag="linked", src=a(p := c12.N())), c12.L(src=p, w=a(o := c12.N())), getattr(o, a1) > t1)
        return q
    return build, lambda o: (type(o).__name__, getattr(o, "tag", None), idx.get(id(getattr(o, "src", None)), -1))


def check_sharedconc_case(case, ctx):
    """two queries of a pool share ONE concatenate expression (and its variable): one uses it free, the other after an earlier
    condition has bound the variable; whatever was evaluated before, each answers as it does alone"""
    from entity_query_language import symbolic_mode, an, entity, let, in_
    from entity_query_language.entity import concatenate
    from entity_query_language.cache_data import enable_caching, disable_caching
    from . import c16
    ctx.cls("cls:twin:sharedconc")
    es = [c16.E(i + 1) for i in range(5)]
    pars = [c16.Par(v[0], [es[(v[1] + j) % 5] for j in range(v[2] - 1)]) for v in case["data"]]
    (a1, t1) = case["conds"][0]
    with symbolic_mode():
        d = let(c16.E, es)
        p = let(c16.Par, pars)
        conc = concatenate(p.items)
        queries = [an(entity(d, in_(d, conc))), an(entity(d, p.k == t1 + 1, in_(d, conc)))]
    want = [[i for i, e in enumerate(es) if any(e is x for p_ in pars for x in p_.items)],
            [i for i, e in enumerate(es) if any(e is x for p_ in pars if p_.k == t1 + 1 for x in p_.items)]]
    idx = {id(e): i for i, e in enumerate(es)}
    (enable_caching if case["caching"] else disable_caching)()
    log = []
    try:
        for step, op in enumerate(list(case["ops"]) + [["full", 0], ["full", 0], ["full", 0]]):
            qi = (step + len(op)) % 2 if step else 0
            # (the parent variable is not selected: how often an element repeats is not specified, the set is)
            got = sorted({idx.get(id(o), -1) for o in queries[qi].evaluate()})
            log.append([qi, len(got)])
            if got != want[qi]:
                ctx.fail("DIFFERS_FROM_EVALUATION_ALONE", {"history_log": log, "query": ["free", "bound"][qi], "expected": want[qi],
                                                           "observed": got, "shape": "sharedconc"})
                return
        if want[0] != want[1] and len({q for q, _ in log}) == 2:
            ctx.nontrivial()
    finally:
        enable_caching()
    ctx.sample({"shape": "sharedconc", "history_log": log})


def check_shareddomain_case(case, ctx):
    """ONE sub-query (with alternatives) is the domain of the variables of two queries: sub = an(entity(y, or_(...)));
    x1 = let(N, domain=sub); x2 = let(N, domain=sub).  Whatever was evaluated (or abandoned) before, each query answers as it
    does alone; one query at a time (the two never run interleaved)"""
    from entity_query_language import symbolic_mode, an, entity, let, or_
    from entity_query_language.cache_data import enable_caching, disable_caching
    from . import c12
    ctx.cls("cls:twin:shareddomain")
    objs = [c12.N(*v) for v in case["data"]]
    idx = {id(o): i for i, o in enumerate(objs)}
    (a1, t1), (a2, t2) = case["conds"]
    with symbolic_mode():
        y = let(c12.N, objs)
        sub = an(entity(y, or_(getattr(y, a1) > t1, getattr(y, a2) == t2), D.f_ok(y)))     # f_ok: always true, raises when armed
        x1 = let(c12.N, domain=sub)
        x2 = let(c12.N, domain=sub)
        queries = [an(entity(x1, x1.c > 0)), an(entity(x2, 0 < x2.b))]
    in_sub = [o for o in objs if getattr(o, a1) > t1 or getattr(o, a2) == t2]
    want = [sorted(idx[id(o)] for o in in_sub if o.c > 0), sorted(idx[id(o)] for o in in_sub if 0 < o.b)]
    (enable_caching if case["caching"] else disable_caching)()
    log = []
    try:
        for step, op in enumerate(list(case["ops"]) + [["full", 0], ["full", 0], ["full", 0]]):
            qi = (step + len(op)) % 2 if step else 0
            # (complete evaluations only: a partly consumed domain keeps a suspended evaluation of the shared sub-query, and a second
            #  variable over it would run interleaved with that one - two evaluations of shared expressions at once, DESIGN 7;
            #  an evaluation that user code ABORTS leaves nothing suspended: the predicate inside the sub-query raises at its k-th call)
            if op[0] in ("take", "abandon", "drop"):
                D.arm_fault(op[2])
                try:
                    for _ in queries[qi].evaluate():
                        pass
                    log.append([qi, "raise:not_reached"])
                except D.Boom:
                    log.append([qi, "raise"])
                    ctx.cls("cls:twin:shareddomain_aborted_by_user_code")
                finally:
                    D.arm_fault(None)
                continue
            got = sorted(idx.get(id(o), -1) for o in queries[qi].evaluate())
            log.append([qi, len(got)])
            if got != want[qi]:
                ctx.fail("DIFFERS_FROM_EVALUATION_ALONE", {"history_log": log, "query": qi, "expected": want[qi],
                                                           "observed": got, "shape": "shareddomain"})
                return
        if 0 < len(in_sub) < len(objs) and any(getattr(o, a1) <= t1 for o in in_sub):
            ctx.nontrivial()
    finally:
        enable_caching()
    ctx.sample({"shape": "shareddomain", "history_log": log})


def check_twin_case(case, ctx):
    from collections import Counter as _Counter
    if case["twin"] == "sharedconc":
        return check_sharedconc_case(case, ctx)
    if case["twin"] == "shareddomain":
        return check_shareddomain_case(case, ctx)
    from entity_query_language.cache_data import enable_caching, disable_caching
    ctx.cls("cls:twin:" + case["twin"])
    if case["twin"] == "ix" and case["ix"].get("empty_collections"):
        ctx.cls("cls:twin:ix_with_empty_collections")
    (enable_caching if case["caching"] else disable_caching)()
    log, keep = [], []
    try:
        _USER_LISTS.clear()
        build, enc = _twin_builder(case)
        as_set = False
        if case["twin"] == "ix":
            from .. import ix as _ix
            as_set = not _ix.all_selected(case["ix"])       # (then how often a row repeats is not specified, the row set is)
        Counter = (lambda it: _Counter(set(it))) if as_set else _Counter
        want = Counter(enc(o) for o in build().evaluate())      # the answer: a fresh query evaluated once
        q = build()
        for step, op in enumerate(list(case["ops"]) + [["full", 0], ["full", 0]]):
            if step % 3 == 1:
                # switching the result cache off and on in the middle of a history changes no answer
                disable_caching()
                (enable_caching if case["caching"] else disable_caching)()
                log.append(["toggle_caching"])
            if op[0] == "full":
                got = Counter(enc(o) for o in q.evaluate())
                log.append(["full", sum(got.values())])
                if got != want:
                    ctx.fail("DIFFERS_FROM_FRESH_EVALUATION", {"history_log": log, "missing": list((want - got).elements())[:6],
                                                               "extra": list((got - want).elements())[:6], "shape": case["twin"]})
                    return
            else:
                it = q.evaluate()
                taken = [enc(o) for o in itertools.islice(it, op[2])]
                log.append([op[0], len(taken)])
                if Counter(taken) - want:
                    ctx.fail("PARTIAL_ROW_NOT_A_SOLUTION", {"history_log": log, "rows": taken})
                    return
                if op[0] == "take":
                    it.close()
                elif op[0] == "abandon":
                    keep.append(it)
                else:
                    del it
                    gc.collect()
        if case["twin"] in ("kwvar", "nexttree", "blockstyle"):
            # a query built now, after all of that, answers like the one built at the beginning
            late = Counter(enc(o) for o in build().evaluate())
            if late != want:
                ctx.fail("FRESH_QUERY_AT_THE_END_DIFFERS", {"history_log": log, "missing": list((want - late).elements())[:6],
                                                            "extra": list((late - want).elements())[:6], "shape": case["twin"]})
                return
        if _USER_LISTS:
            pars, snap = _USER_LISTS
            changed = [i for i, (p_, l_) in enumerate(zip(pars, snap)) if len(p_.items) != len(l_) or any(a is not b for a, b in zip(p_.items, l_))]
            if changed:
                ctx.fail("USER_DATA_MODIFIED_BY_EVALUATION", {"parents_whose_list_changed": changed, "history_log": log})
                return
        if (len(want) >= 2 or case["twin"] == "concat") and any(e[0] != "full" for e in log):
            ctx.nontrivial()
    finally:
        enable_caching()
        keep.clear()
        _USER_LISTS.clear()
    ctx.sample({"shape": case["twin"], "ops": case["ops"], "history_log": log, "rows": sum(want.values())})


def check_shared_expr_case(case, ctx):
    from entity_query_language import symbolic_mode, an, entity, set_of, let
    from entity_query_language.cache_data import enable_caching, disable_caching
    ctx.cls("cls:shared_expression_pool")
    world = D.build_world(case["world"])
    ps = world["P"]
    m = H.labels_of(world)
    attr = case["shared_expr"]["attr"]
    uses = case["shared_expr"]["uses"]
    (enable_caching if case["caching"] else disable_caching)()
    log = []
    try:
        with symbolic_mode():
            x = let(D.P, ps)
            val = getattr(x, attr)
            qs = []
            for u in uses:
                qs.append(an(entity(x, val)) if u == "condition" else an(entity(x, val == False)) if u == "operand"  # noqa: E712
                          else an(set_of([x, val])))

        def expect(u):
            if u == "condition":
                return [m[id(o)] for o in ps if getattr(o, attr)]
            if u == "operand":
                return [m[id(o)] for o in ps if getattr(o, attr) == False]  # noqa: E712
            return [(m[id(o)], repr(getattr(o, attr))) for o in ps]
        for step, op in enumerate(list(case["ops"]) + [["full", i] for i in range(len(qs))]):
            u = uses[op[1]]
            enc = (lambda r: (H.lab(m, r[x]), repr(r[val]))) if u == "selected" else (lambda r: H.lab(m, r))
            if op[0] == "full":
                got = [enc(r) for r in qs[op[1]].evaluate()]
                log.append(["full", op[1], u, len(got)])
                if got != expect(u):
                    ctx.fail("SHARED_EXPRESSION:" + u, {"attribute": attr, "uses": uses, "history_log": log, "expected": expect(u), "observed": got})
                    return
            else:
                it = qs[op[1]].evaluate()
                taken = [enc(r) for r in itertools.islice(it, op[2])]
                log.append([op[0], op[1], u, len(taken)])
                if any(t not in expect(u) for t in taken):
                    ctx.fail("PARTIAL_ROW_NOT_A_SOLUTION", {"history_log": log, "rows": taken})
                    return
                if op[0] == "take":
                    it.close()
                else:
                    del it
                    gc.collect()
    finally:
        enable_caching()
    if len(set(uses)) > 1 and any(not getattr(o, attr) for o in ps):
        ctx.nontrivial()
    ctx.sample({"shared_expression": case["shared_expr"], "ops": case["ops"], "history_log": log})


def check_case(case, ctx):
    if "twin" in case:
        return check_twin_case(case, ctx)
    if "shared_expr" in case:
        return check_shared_expr_case(case, ctx)
    if "ruletree" in case:
        return check_ruletree_case(case, ctx)
    world = D.build_world(case["world"])
    ctx.cls("cls:caching_on" if case["caching"] else "cls:caching_off")
    if case.get("scale"):
        ctx.cls("cls:scale:" + case["scale"])
    if case.get("dup"):
        ctx.cls("cls:dup_domain")
    if case.get("no_instance") is not None:
        ctx.cls("cls:variable_whose_domain_has_no_instance")
    try:
        log, failures, exp = run_history(case, world, case["caching"])
    except Exception as e:
        import traceback
        ctx.fail("EXC", f"{type(e).__name__}: {e}\n{traceback.format_exc()[-1200:]}")
        return
    interrupted = False
    nontrivial = False
    for entry in log:
        ctx.cls("op:" + entry[0])
        if entry[0] == "boom" and entry[2] == "raised":
            ctx.cls("op:boom_raised")
            if case.get("flaky_dom"):
                ctx.cls("cls:domain_walk_raised")
        if entry[0] in ("take", "abandon", "drop") or (entry[0] == "boom" and entry[2] == "raised"):
            interrupted = True
        if entry[0] == "full" and interrupted:
            rows = exp[entry[1]][0]
            if 0 < len(rows) < H.count_product(world, case["kinds"]):
                nontrivial = True
    if nontrivial:
        ctx.nontrivial()
    if "known_deviation" in M.RETRIEVE_EVENTS:
        ctx.cls("cls:K05_precondition(retrieve_deviation_event)")
    for f in failures:
        ctx.fail(f["kind"], {"history_log": log, **f})
    ctx.sample({"kinds": case["kinds"], "pool": [{"select": p["sel"], "condition": p["cond"]} for p in case["pool"]],
                "ops": case["ops"], "history_log": log, "caching": case["caching"], "dup": case.get("dup")})


def classify(f, ctx):
    """K05 / K02 inside a history: the whole history is re-run under the counterfactual configuration."""
    case = f["case"]
    if f["kind"] != "SET:missing" or "ruletree" in case or "shared_expr" in case or "twin" in case:
        return None
    from ..shard import reset_eql_state

    def rerun(caching, dedup_off=False, spec_retrieve=False):
        reset_eql_state()
        M.begin_case()
        M.FORCE_DEDUP_OFF = dedup_off
        M.FORCE_SPEC_RETRIEVE = spec_retrieve
        try:
            world = D.build_world(case["world"])
            log, failures, _ = run_history(case, world, caching)
            return failures, Counter(M.RETRIEVE_EVENTS)
        finally:
            M.FORCE_DEDUP_OFF = False
            M.FORCE_SPEC_RETRIEVE = False

    try:
        fails_as_is, ev = rerun(case["caching"])
        if not fails_as_is:
            return None
        fails_off, _ = rerun(False)
        if not fails_off:
            if case["caching"] and len(case["kinds"]) >= KF.MIN_VARS_K05 and all(x["kind"] == "SET:missing" for x in fails_as_is) \
                    and ev["known_deviation"] >= 1 and ev["other_deviation"] == 0:
                fails_spec, _ = rerun(True, spec_retrieve=True)
                if not [x for x in fails_spec if "missing" in x["kind"] or x["kind"] == "PARTIAL_ROW_NOT_A_SOLUTION"]:
                    return "K05"
            return None
        mns = any(multi.vars_mentioned_not_selected({"cond": p["cond"], "sel": p["sel"]}) for p in case["pool"])
        if mns and all(x["kind"] == "SET:missing" for x in fails_off):
            fails_nd, _ = rerun(False, dedup_off=True)
            if not [x for x in fails_nd if x["kind"].startswith("SET")]:
                return "K02"
    except Exception:
        return None
    return None
