"""C10  for_all yields exactly the bindings whose condition holds for every value.

Oracle: { f | all(holds(c, (u,)+f) for u in U) and extra(f) },  U non-empty.  The universal is a variable or an attribute
expression of a variable (as in the repository's own test); c mentions the universal only / the free variables only /
both; c is a leaf, a negation, a conjunction, a disjunction (depth <= 3); for_all is combined with another condition by
and_ in both orders; 1-3 free variables; caching on and off.
"""
from __future__ import annotations

import itertools

from .. import classify as KF
from .. import cond as C
from .. import data as D
from .. import harness as H
from .. import monitors as M
from .. import multi

ID = "C10"
LEVEL = "exploration"
RULE = ("random for_all queries: universal variable of kind P or Q (|U| 1-4), the attribute expression q.p of it, a sub-query correlated with a free variable (an(entity(q, q.p == x))), or a restricted entity an(entity(u, restriction)) with the condition written over the variable or over the entity, "
        "1-3 free variables, condition trees of depth 0-3 over the full vocabulary (leaves, negations, conjunctions, "
        "disjunctions) mentioning the universal only / the free variables only / both, optionally and_-combined with a "
        "condition on the free variables in either order; all free variables selected, or (a third of the cases with >= 2 free variables) only part of them; caching on and off; universal = flatten of plain numbers of a bound parent; universal = plain variable with a condition over a flattened element of a parent, the other condition before / after the for_all or absent (element unbound when the for_all is reached); feature-interaction queries of eqlmon/ix.py with for_all atoms (over the element's collection, over a sub-query containing a for_all, over a flatten with a free parent, over a plain variable with a two-object function predicate). "
        "Non-trivial: |U| >= 2 and the oracle result is neither empty nor all free assignments.")
RULE += " Size cases (every tier): 40-60 universal values x 24-36 free bindings (well over a thousand condition evaluations per statement), the statement alone, and_-combined before / after, or as both alternatives of an or_; evaluated twice."
RULE += ' Aborted first evaluation (every tier): 30% of the plain cases evaluate the same query object once with a property of the universal value raising at its 1st-7th access (also at the second or a later universal value) before the judged evaluation.'
LEVEL_TEXT = ("Reference-model monitoring: rows of the real for_all query compared by identity with the universally "
              "quantified statement evaluated in plain Python. The node monitor must show ForAll entered with |U|>=2, "
              "compound conditions and partial bindings, i.e. the paths the repository's single test never reaches.")
LEVEL_NOTE = "Trusted: oracle + translation. K05 attribution as in C02 (for_all conditions use the operator caches)."
TECHNIQUE = "runtime monitoring: differential oracle on results for universally quantified queries, node-path monitors"
ASSUMPTIONS = ["the universal domain is non-empty (as the property states)", "no falsy values (C19)"]


def plan(tier, seed):
    n = 500 if tier == "quick" else 3500
    specs_ = [{"n": n, "sub": i} for i in range(16)]
    specs_ += [{"kind": "ix", "n": 40 if tier == "quick" else 400, "sub": 900 + i} for i in range(16)]
    return specs_


def floors(tier):
    return {"cls:feature_interaction_query": 300, "distinct_nontrivial": 200, "re:ForAll(@.*)?\\.enter": 1000, "cls:U>=2": 1000, "cls:cond:compound": 500,
            "cls:cond:or": 200, "cls:cond:and": 200, "cls:cond:not": 100, "cls:mentions:both": 300,
            "cls:mentions:universal_only": 30, "cls:mentions:free_only": 30, "cls:extra:first": 100,
            "cls:extra:second": 100, "cls:u_expr": 100, "cls:u_restricted_entity": 300, "cls:free_variable_not_selected": 300, "cls:u_scalar_attribute_with_zero": 200, "cls:u_correlated_subquery": 300, "cls:u_flatten_of_plain_numbers": 200, "re:cls:universal_domain_of_40_to_60_values:.*": 240, "re:cls:condition_mentions_a_flattened_element:.*": 150, "cls:caching_off": 200, "cls:evaluated_after_an_evaluation_aborted_by_user_code": 100, "cls:nfree=2": 200, "cls:nfree=3": 50}


def gen_corr_case(rng):
    """the universal is a sub-query CORRELATED with a free variable: for_all(an(entity(q, q.p == x)), q.attr OP z.attr2)"""
    world = D.random_world(rng, np_=(2, 4), nq=(2, 5))
    for i in range(len(world["P"])):        # premise: a non-empty universal domain for every x
        if not any(q["p"] == i for q in world["Q"]):
            world["Q"].append({"a": rng.randint(1, 3), "b": rng.randint(1, 3), "p": i})
    zk = rng.choice("PQ")
    # The correlating variable x is bound by an EARLIER conjunct (and_(x.a >= k, for_all(...))), so the universal domain is a
    # fixed non-empty set per binding, as the statement presumes.  With x still unbound when the for_all is reached (for_all
    # first, or alone) the implementation takes all (q, x) pairs as the universal domain; DESIGN 9.5, observed, not judged.
    return {"world": world, "kinds": ["Q", "P", zk], "cond": None, "extra": None, "extra_first": True,
            "u_expr": False, "caching": rng.random() < 0.7,
            "corr": {"attr": rng.choice("ab"), "op": rng.choice([">=", "<=", "!=", ">"]), "zattr": rng.choice("ab"),
                     "xk": rng.choice([0, 1, 2]), "on_entity": rng.random() < 0.5}}


def gen_flatprim_case(rng):
    """for_all(flatten(r.items), OP(e.n, element)): the universal values are plain numbers (negative ones too) of the parent r,
    which an earlier conjunct has bound"""
    from . import c16
    w = c16.gen_world(rng)
    for p in w["parents"]:
        p["items"] = rng.sample(range(5), rng.randint(1, 4))      # non-empty: the universal domain of the statement
    return {"world": {"P": [], "Q": []}, "kinds": ["P"], "cond": None, "extra": None, "extra_first": True, "u_expr": False,
            "caching": rng.random() < 0.7,
            # bind "parent": the earlier conjunct binds the parent (several parents); bind "elem": one parent only, the earlier
            # conjunct binds the free variable the universal values are compared with
            "flatprim": {"parents": w["parents"], "op": rng.choice(["!=", "<", ">=", "=="]), "k0": rng.randint(0, 3),
                         "bind": rng.choice(["parent", "elem"]),
                         # shape "cond_on_flatten": the universal is a plain variable u over a few limits and the CONDITION mentions
                         # the flattened element of the parent, for_all(u, OP(o, u.n)); rows are (parent, element); the other
                         # condition comes before the for_all, after it, or there is none (the element is then unbound when the
                         # for_all is reached)
                         "shape": rng.choice(["universal_is_flatten", "universal_is_flatten", "cond_on_flatten"]),
                         "limits": rng.sample(range(-1, 5), rng.randint(1, 3)), "where": rng.choice(["before", "after", "none", "elem_before"])}}


def gen_big_case(rng):
    """SIZE: 40-60 universal values and 20-36 free bindings (more than a thousand condition evaluations per for_all), the statement
    alone, and_-combined, or as two alternatives of an or_; evaluated twice"""
    nu, nx = rng.randint(40, 60), rng.randint(24, 36)
    us = [[rng.randint(3, 9), rng.randint(1, 7)] for _ in range(nu)]
    # (most free bindings satisfy the first statement, so that it is checked against every universal value for them: well over a
    #  thousand condition evaluations go through one operator)
    xs = [[rng.randint(1, 2) if rng.random() < 0.8 else rng.randint(3, 9), rng.randint(1, 9)] for _ in range(nx)]
    return {"big": {"us": us, "xs": xs, "op1": rng.choice([">=", ">", "!="]), "op2": rng.choice(["<=", "<", "!="]),
                    "shape": rng.choice(["single", "and_after", "and_before", "or_two", "or_two"]), "k": rng.randint(2, 6)},
            "world": {"P": [], "Q": []}, "kinds": ["P", "Q"], "cond": None, "extra": None, "extra_first": True, "u_expr": False,
            "caching": rng.random() < 0.8}


def _big(case, caching, times=2):
    from entity_query_language import symbolic_mode, an, entity, and_, or_, for_all, let
    from entity_query_language.cache_data import enable_caching, disable_caching
    b = case["big"]
    us = [D.P(a=a, b=b_) for a, b_ in b["us"]]
    xs = [D.Q(a=a, b=b_) for a, b_ in b["xs"]]
    o1, o2 = C.OPS[b["op1"]], C.OPS[b["op2"]]
    f1 = lambda x: all(o1(u.a, x.a) for u in us)
    f2 = lambda x: all(o2(u.b, x.b) for u in us)
    holds = {"single": f1, "and_after": lambda x: f1(x) and x.b >= b["k"], "and_before": lambda x: x.b >= b["k"] and f1(x),
             "or_two": lambda x: f1(x) or f2(x)}[b["shape"]]
    exp = sorted(i for i, x in enumerate(xs) if holds(x))
    (enable_caching if caching else disable_caching)()
    try:
        with symbolic_mode():
            u = let(D.P, us)
            x = let(D.Q, xs)
            fa1 = for_all(u, o1(u.a, x.a))
            cond = {"single": lambda: fa1, "and_after": lambda: and_(fa1, x.b >= b["k"]), "and_before": lambda: and_(x.b >= b["k"], fa1),
                    "or_two": lambda: or_(fa1, for_all(u, o2(u.b, x.b)))}[b["shape"]]()
            q = an(entity(x, cond))
        idx = {id(o): i for i, o in enumerate(xs)}
        return [sorted(idx.get(id(r), -1) for r in q.evaluate()) for _ in range(times)], exp
    finally:
        enable_caching()


def check_big_case(case, ctx):
    ctx.cls("cls:universal_domain_of_40_to_60_values:" + case["big"]["shape"])
    ctx.cls("cls:caching_on" if case["caching"] else "cls:caching_off")
    try:
        gots, exp = _big(case, case["caching"])
    except Exception as ex:
        ctx.fail("EXC", f"{type(ex).__name__}: {ex}")
        return
    if 0 < len(exp) < len(case["big"]["xs"]):
        ctx.nontrivial()
    for n, got in enumerate(gots):
        if got != exp:
            ctx.fail("SET:" + ("missing" if set(exp) - set(got) else "") + ("+extra" if set(got) - set(exp) else ""),
                     {"big_universal": {k: v for k, v in case["big"].items() if k not in ("us", "xs")}, "evaluation": n + 1,
                      "missing": sorted(set(exp) - set(got))[:8], "extra": sorted(set(got) - set(exp))[:8]})
            break
    ctx.sample({"big_universal": case["big"]["shape"], "expected": exp[:5]})


def gen_case(rng):
    r0 = rng.random()
    if r0 < 0.02:
        return gen_big_case(rng)
    if r0 < 0.1:
        return gen_corr_case(rng)
    if r0 < 0.17:
        return gen_flatprim_case(rng)
    nfree = rng.choice([1, 1, 2, 2, 3])
    kinds = [rng.choice("PQ") for _ in range(1 + nfree)]
    world = D.random_world(rng, np_=(1, 4), nq=(1, 4))
    d = rng.choice([0, 1, 1, 2, 2, 3])
    cond = C.gen_cond(rng, kinds, d, {"p_leaf": 0.15, "p_not": 0.2})
    extra = None
    if rng.random() < 0.45:
        # a condition over the free variables only
        fk = kinds[1:]
        e = C.gen_cond(rng, fk, rng.choice([0, 1]), {"preds": False})
        extra = _shift(e, 1)
    case = {"world": world, "kinds": kinds, "cond": cond, "extra": extra, "extra_first": rng.random() < 0.5,
            "u_expr": kinds[0] == "Q" and rng.random() < 0.4, "caching": rng.random() < 0.7}
    r = rng.random()
    if r < 0.12:
        # the universal is a scalar attribute expression whose values include 0: every value counts, falsy ones too
        case["u_expr"] = False
        case["u_attr"] = rng.choice(["a", "b"])
        for o in world[kinds[0]]:
            if rng.random() < 0.5:
                o[case["u_attr"]] = 0
        return case
    # (a condition OBJECT shared with another, earlier evaluated query is not generated: on the unchanged tree 6 of 800 such
    #  cases already return extra rows with caching on - one condition node under two queries is aliasing, DESIGN 7 and 9.5)
    if nfree >= 2 and rng.random() < 0.35:
        # only part of the free variables is selected: the others are existentially projected away
        case["sel_free"] = sorted(rng.sample(range(1, 1 + nfree), rng.randint(1, nfree - 1)))
    if not case["u_expr"] and rng.random() < 0.3:
        # the universal is a restricted entity an(entity(u, restriction)): the statement ranges over its solutions only
        restr = ["cmp", rng.choice(["<=", ">", "!=", "=="]), ["v", 0, [["a", rng.choice("ab")]]], ["lit", rng.randint(1, 3)]]
        objs = D.build_world(world)[kinds[0]]
        if any(C.holds(restr, (o,)) for o in objs):      # non-empty universal domain (the statement's premise)
            case["u_restr"] = restr
            case["u_cond_on_entity"] = rng.random() < 0.6
    if not case["u_expr"] and not case.get("u_attr") and not case.get("u_restr") and rng.random() < 0.3:
        # HISTORY: before the judged evaluation the same query object is evaluated once with user code (a property of the
        # universal value read by the condition) raising at its j-th access - at the 2nd or a later universal value, too
        case["aborted_first"] = rng.randint(1, 7)
    return case


def _shift(c, by):
    """renumber variable indices of an AST"""
    if isinstance(c, list):
        if c and c[0] == "v":
            return ["v", c[1] + by, c[2]]
        if c and c[0] == "hastype":
            return ["hastype", c[1] + by, c[2]]
        if c and c[0] in ("lit", "tup"):
            return c
        return [_shift(x, by) if isinstance(x, list) else x for x in c]
    return c


def cases(spec, ctx):
    if spec.get("kind") == "ix":
        from .. import ix
        for i in range(spec["n"]):
            yield {"ix": ix.gen_case_for(ctx.rng(spec["sub"], i), ID)}
        return
    for i in range(spec["n"]):
        yield gen_case(ctx.rng(spec["sub"], i))


def expected(case, world):
    m = H.labels_of(world)
    if case.get("corr"):
        k = case["corr"]
        op = C.OPS[k["op"]]
        return [(m[id(x)], m[id(z)]) for x in world["P"] for z in world[case["kinds"][2]]
                if (k["xk"] is None or x.a >= k["xk"])
                and all(op(getattr(q, k["attr"]), getattr(z, k["zattr"])) for q in world["Q"] if q.p is x)]
    doms = H.domains(world, case["kinds"])
    U = doms[0]
    if case.get("u_restr"):
        U = [u for u in U if C.holds(case["u_restr"], (u,))]
    out = []
    for f in itertools.product(*doms[1:]):
        if all(C.holds(case["cond"], (u,) + f) for u in U) and (case["extra"] is None or C.holds(case["extra"], (None,) + f)):
            if case.get("sel_free"):
                row = tuple(m[id(f[i - 1])] for i in case["sel_free"])
                if row not in out:
                    out.append(row)
            else:
                out.append(tuple(m[id(o)] for o in f))
    return out


def run(case, world, caching, times=1, perm=None, aborted_first=None):
    from entity_query_language import symbolic_mode, an, set_of, and_, for_all
    from entity_query_language.cache_data import enable_caching, disable_caching
    m = H.labels_of(world)
    doms = H.domains(world, case["kinds"], perm)
    (enable_caching if caching else disable_caching)()
    try:
        if case.get("corr"):
            from entity_query_language import entity
            k = case["corr"]
            op = C.OPS[k["op"]]
            with symbolic_mode():
                xs = H.declare(case["kinds"], doms)
                qv, x, z = xs
                members = an(entity(qv, qv.p == x))
                fa = for_all(members, op(getattr(members if k["on_entity"] else qv, k["attr"]), getattr(z, k["zattr"])))
                if k["xk"] is None:
                    cond = fa
                else:
                    cond = and_(x.a >= k["xk"], fa) if case["extra_first"] else and_(fa, x.a >= k["xk"])
                sel = [x, z]
                q = an(set_of(sel, cond))
            return [[tuple(H.lab(m, r[v]) for v in sel) for r in q.evaluate()] for _ in range(times)]
        with symbolic_mode():
            xs = H.declare(case["kinds"], doms)
            u = xs[0].p if case.get("u_expr") else xs[0]
            if case.get("u_attr"):
                u = getattr(xs[0], case["u_attr"])
            cxs = xs
            if case.get("u_restr"):
                from entity_query_language import entity
                u = an(entity(xs[0], C.build(case["u_restr"], [xs[0]], 0, False)))
                if case.get("u_cond_on_entity"):
                    cxs = [u] + list(xs[1:])      # the condition is written over the entity itself
            cond_ast = case["cond"]
            if aborted_first:
                # (always true: the fault-injecting property returns `a`)
                cond_ast = ["and", cond_ast, ["cmp", ">=", ["v", 0, [["a", "fa"]]], ["lit", 0]]]
            cond_obj = C.build(cond_ast, cxs, 0, False)
            if case.get("cond_shared_with_earlier_query"):
                from entity_query_language import or_
                pre = an(set_of(xs, or_(cond_obj, C.build(case["extra"], xs, 0, False))))
                list(pre.evaluate())
            fa = for_all(u, cond_obj)
            if case["extra"] is not None:
                e = C.build(case["extra"], xs, 0, False)
                cond = and_(e, fa) if case["extra_first"] else and_(fa, e)
            else:
                cond = fa
            sel = [xs[i] for i in case["sel_free"]] if case.get("sel_free") else xs[1:]
            q = an(set_of(sel, cond))
        out = []
        if aborted_first:
            D.arm_fault(aborted_first)
            try:
                for r in q.evaluate():
                    pass
                ABORTED["not_reached"] += 1
            except D.Boom:
                ABORTED["raised"] += 1
            finally:
                D.arm_fault(None)
        for _ in range(times):
            out.append([tuple(H.lab(m, r[x]) for x in sel) for r in q.evaluate()])
        return out
    finally:
        enable_caching()


ABORTED = {"raised": 0, "not_reached": 0}


def run_for_c05(case, caching, times):
    if case.get("big"):
        gots, exp = _big(case, caching, times)
        return gots, exp, True
    if case.get("flatprim"):
        gots, exp, _, _ = _flatprim(case, caching, times)
        return gots, exp, True
    world = D.build_world(case["world"])
    return run(case, world, caching, times), expected(case, world), not case.get("sel_free")


def check_corr_case(case, ctx):
    world = D.build_world(case["world"])
    exp = expected(case, world)
    ctx.cls("cls:u_correlated_subquery")
    ctx.cls("cls:caching_on" if case["caching"] else "cls:caching_off")
    sizes = [len([q for q in world["Q"] if q.p is x]) for x in world["P"]]
    if max(sizes) >= 2 and 0 < len(exp) < len(world["P"]) * len(world[case["kinds"][2]]):
        ctx.nontrivial()
    try:
        got = run(case, world, case["caching"])[0]
    except Exception as e:
        ctx.fail("EXC", f"{type(e).__name__}: {e}")
        return
    k = H.diff_kind(got, exp, ordered=False, multiset=True)
    if k:
        ctx.fail(k, {"missing": sorted(set(exp) - set(got))[:8], "extra": sorted(set(got) - set(exp))[:8],
                     "n_expected": len(exp), "n_observed": len(got), "universal_domain_sizes": sizes})
    ctx.sample({"correlated": case["corr"], "expected": exp[:5], "observed": got[:5]})


def _flatprim(case, caching, times=1):
    """-> (rows per evaluation, expected rows)"""
    from entity_query_language import symbolic_mode, an, set_of, and_, for_all, let
    from entity_query_language.entity import flatten
    from entity_query_language.cache_data import enable_caching, disable_caching
    from . import c16
    fp = case["flatprim"]
    if fp.get("shape") == "cond_on_flatten":
        return _flatcond(case, caching, times)
    by_elem = fp.get("bind") == "elem"
    es, ps = c16.build_world({"parents": fp["parents"][:1] if by_elem else fp["parents"]}, True)
    ns = [c16.E(v) for v in c16.PRIMS]
    op = C.OPS[fp["op"]]
    first = (lambda p_, e_: e_.n >= fp["k0"] - 3) if by_elem else (lambda p_, e_: p_.k >= fp["k0"])
    exp = sorted((f"Par{i}", f"N{j}") for i, p_ in enumerate(ps) for j, e_ in enumerate(ns)
                 if first(p_, e_) and all(op(e_.n, v) for v in p_.items))
    lab = {id(p_): f"Par{i}" for i, p_ in enumerate(ps)}
    lab.update({id(e_): f"N{j}" for j, e_ in enumerate(ns)})
    (enable_caching if caching else disable_caching)()
    try:
        with symbolic_mode():
            r = let(c16.Par, ps)
            e = let(c16.E, ns)
            o = flatten(r.items)
            q = an(set_of([r, e], and_(e.n >= fp["k0"] - 3 if by_elem else r.k >= fp["k0"], for_all(o, op(e.n, o)))))
        return [sorted((lab.get(id(row[r]), "?"), lab.get(id(row[e]), "?")) for row in q.evaluate()) for _ in range(times)], exp, ps, ns
    finally:
        enable_caching()


def _flatcond(case, caching, times=1):
    from entity_query_language import symbolic_mode, an, set_of, for_all, let
    from entity_query_language.entity import flatten
    from entity_query_language.cache_data import enable_caching, disable_caching
    from . import c16
    fp = case["flatprim"]
    es, ps = c16.build_world({"parents": fp["parents"]}, True)
    us = [c16.E(v) for v in fp["limits"]]
    op = C.OPS[fp["op"]]
    where = fp["where"]
    other = (lambda p_, v: v >= fp["k0"] - 2) if where == "elem_before" else (lambda p_, v: True) if where == "none" else \
        (lambda p_, v: p_.k >= fp["k0"])
    exp = sorted((f"Par{i}", v) for i, p_ in enumerate(ps) for v in p_.items if other(p_, v) and all(op(v, u.n) for u in us))
    lab = {id(p_): f"Par{i}" for i, p_ in enumerate(ps)}
    (enable_caching if caching else disable_caching)()
    try:
        with symbolic_mode():
            r = let(c16.Par, ps)
            u = let(c16.E, us)
            o = flatten(r.items)
            fa = for_all(u, op(o, u.n))
            conds = {"before": [r.k >= fp["k0"], fa], "after": [fa, r.k >= fp["k0"]], "none": [fa],
                     "elem_before": [o >= fp["k0"] - 2, fa]}[where]
            q = an(set_of([r, o], *conds))
        return [sorted((lab.get(id(row[r]), "?"), row[o]) for row in q.evaluate()) for _ in range(times)], exp, ps, us
    finally:
        enable_caching()


def check_flatprim_case(case, ctx):
    fp = case["flatprim"]
    if fp.get("shape") == "cond_on_flatten":
        ctx.cls("cls:condition_mentions_a_flattened_element:" + fp["where"])
    ctx.cls("cls:u_flatten_of_plain_numbers")
    ctx.cls("cls:caching_on" if case["caching"] else "cls:caching_off")
    try:
        gots, exp, ps, ns = _flatprim(case, case["caching"])
    except Exception as ex:
        ctx.fail("EXC", f"{type(ex).__name__}: {ex}")
        return
    got = gots[0]
    if max(len(p_.items) for p_ in ps) >= 2 and 0 < len(exp) < len(ps) * len(ns):
        ctx.nontrivial()
    if got != exp:
        ctx.fail("SET:" + ("missing" if set(exp) - set(got) else "") + ("+extra" if set(got) - set(exp) else ""),
                 {"flatten_universal": fp, "missing": sorted(set(exp) - set(got))[:8], "extra": sorted(set(got) - set(exp))[:8],
                  "n_expected": len(exp), "n_observed": len(got)})
    ctx.sample({"flatten_universal": fp, "expected": exp[:5], "observed": got[:5]})


def check_case(case, ctx):
    if "ix" in case:
        from .. import ix
        return ix.check(case["ix"], ctx)
    if case.get("big"):
        return check_big_case(case, ctx)
    if case.get("flatprim"):
        return check_flatprim_case(case, ctx)
    if case.get("corr"):
        return check_corr_case(case, ctx)
    world = D.build_world(case["world"])
    exp = expected(case, world)
    nU = len(world[case["kinds"][0]])
    nfree = len(case["kinds"]) - 1
    ctx.cls("cls:U>=2" if nU >= 2 else "cls:U=1")
    ctx.cls(f"cls:nfree={nfree}")
    ctx.cls("cls:caching_on" if case["caching"] else "cls:caching_off")
    c = case["cond"]
    ctx.cls("cls:cond:leaf" if C.is_leaf(c) else "cls:cond:compound")
    for t in C.shape_tags(c):
        if t in ("and", "&"):
            ctx.cls("cls:cond:and")
        elif t in ("or", "|"):
            ctx.cls("cls:cond:or")
        elif t in ("not", "~"):
            ctx.cls("cls:cond:not")
    ment = C.mentioned(c)
    ctx.cls("cls:mentions:" + ("both" if 0 in ment and len(ment) > 1 else "universal_only" if ment == {0} else "free_only"))
    if case["extra"] is not None:
        ctx.cls("cls:extra:first" if case["extra_first"] else "cls:extra:second")
    if case.get("sel_free"):
        ctx.cls("cls:free_variable_not_selected")
    if case.get("u_attr"):
        ctx.cls("cls:u_scalar_attribute_with_zero")
    if case.get("cond_shared_with_earlier_query"):
        ctx.cls("cls:condition_object_shared_with_earlier_query")
    if case.get("u_expr"):
        ctx.cls("cls:u_expr")
    if case.get("u_restr"):
        ctx.cls("cls:u_restricted_entity")
        nU = len([u for u in world[case["kinds"][0]] if C.holds(case["u_restr"], (u,))])
    total = 1
    for k in case["kinds"][1:]:
        total *= len(world[k])
    if case.get("sel_free"):
        total = 1
        for i in case["sel_free"]:
            total *= len(world[case["kinds"][i]])
    if nU >= 2 and 0 < len(exp) < total:
        ctx.nontrivial()
    try:
        before = ABORTED["raised"]
        got = run(case, world, case["caching"], aborted_first=case.get("aborted_first"))[0]
        if ABORTED["raised"] > before:
            ctx.cls("cls:evaluated_after_an_evaluation_aborted_by_user_code")
    except Exception as e:
        ctx.fail("EXC", f"{type(e).__name__}: {e}")
        return
    k = H.diff_kind(got, exp, ordered=False, multiset=not case.get("sel_free"))
    if k:
        ctx.fail(k, {"missing": sorted(set(exp) - set(got))[:8], "extra": sorted(set(got) - set(exp))[:8],
                     "n_expected": len(exp), "n_observed": len(got), "universal_domain_size": nU})
    ctx.sample({"kinds": case["kinds"], "for_all_condition": case["cond"], "extra": case["extra"], "universal_size": nU,
                "expected": exp[:5], "observed": got[:5]})


def classify(f, ctx):
    if "ix" in f.get("case", {}):
        return None
    case = f["case"]
    if case.get("flatprim") or case.get("big"):
        return None
    world = D.build_world(case["world"])
    exp = expected(case, world)
    r = KF.attribute(f, lambda caching: run(case, world, caching, aborted_first=case.get("aborted_first"))[0], exp, mentioned_not_selected=False,
                     compare=lambda got, e: H.diff_kind(got, e, ordered=False, multiset=not case.get("sel_free")),
                     nvars=0 if case.get("corr") else len(case["kinds"]))
    return r if r == "K05" else None
