"""C12  A rule tree selects, per match, the conclusion ripple-down rules prescribe.

tree node = [cond, tag, refinement_child | None, alternative_child | None],   cond = [attribute, threshold]  (x.attr > t)
Reference interpreter fire(node, o):  if cond holds -> the conclusion of the first firing refinement below it
(recursively), else its own tag;  if cond does not hold -> fire(alternative) if there is one, else nothing.
Result = multiset of (tag, source object identity); every result must be a new Out instance.
"""
from __future__ import annotations

import itertools
from collections import Counter
from dataclasses import dataclass, field
from typing import Any

from entity_query_language import symbol

from .. import classify as KF
from .. import harness as H
from .. import monitors as M

ID = "C12"
LEVEL = "exploration"
RULE = ("(a) exhaustive: every rule-tree shape with <= N branches (N=4 quick, 5 thorough; each branch may carry one "
        "refinement and one alternative, nested to any depth: base, chains of alternatives, refinements under base / "
        "refinement / alternative, alternatives under refinements) x every assignment of branch conditions from "
        "{a>2, b>2, c>2, always-true} on the 8-object cube {1,3}^3, where every branch both fires and does not fire, chains of >= 2 alternatives "
        "in both declaration styles (nested `with` blocks / sibling `with` blocks); "
        "(b) random thresholds and 3-7 random objects; (c) random trees in which one branch joins a second variable (l.src == x, 0-2 links per item) so that there is one row and one conclusion per link, with branches below it testing the link; branch conditions also include function predicates (with a defaulted parameter), or_ of a comparison and a predicate term, for_all over a second pool, and a nested an(...) with an or_ as the whole condition of a branch; conclusions may carry a nested query as a field value; (d) every ordered pair of branch-condition kinds on every 3-branch tree shape; (e) trees over (parent, flattened element) matches with refinement, its alternative and an alternative of the base; every tree is evaluated twice; a share of the trees is also built incrementally (evaluated, then extended by the root's alternatives in a later rule_mode(query) session, then evaluated three times). Non-trivial: at least two different conclusions are produced "
        "and at least one object gets none or an overridden one; distinct by (tree, data).")
RULE += " Size cases (every tier): trees over 280-600 items, evaluated twice."
LEVEL_TEXT = ("Reference-model monitoring: the real rule tree (Add conclusions, refinement(), alternative() under "
              "rule_mode(query)) is evaluated and the inferred instances are compared, as a multiset of (conclusion tag, "
              "source identity), with a 12-line recursive ripple-down interpreter. All small tree shapes are enumerated "
              "completely; node monitors must show except-if and alternative branches taken and not taken.")
LEVEL_NOTE = ("Trusted: the reference interpreter. Sibling refinements of one node (two refinement() calls at the same level) "
              "and next_rule() are outside the statement and are not generated.")
TECHNIQUE = "runtime monitoring: differential oracle (reference ripple-down interpreter) on inferred instances, bounded-exhaustive tree shapes + random, node-path monitors"
ASSUMPTIONS = ["each branch has at most one direct refinement and one direct alternative (further ones hang below them)"]


@symbol
@dataclass(eq=False)
class N:
    a: Any
    b: Any
    c: Any

    def big(self):
        return self.a > 2

    @property
    def fa(self):
        """`a`, read through a property that raises at its j-th access when armed (user code failing mid-evaluation)"""
        from .. import data as _D
        _D._fault_tick()
        return self.a

    def hi(self):
        return self.c > 2

    def __repr__(self):
        return f"N({self.a},{self.b},{self.c})"


@symbol
@dataclass(eq=False)
class OutBase:
    world: Any = field(default=None, kw_only=True)       # inherited keyword-only field: not the first positional one


@symbol
@dataclass(eq=False)
class Out(OutBase):
    tag: Any = ""
    src: Any = None
    link: Any = None


@symbol
@dataclass(eq=False)
class OutSub(Out):
    """a specialisation of the conclusion class, concluded by ANOTHER rule of the same process for the same objects"""


@symbol
@dataclass(eq=False)
class L:
    """a link to an item: refinements may join it (l.src == x), then there is one row - one conclusion - per link"""
    src: Any = None
    w: Any = 0


@symbol
@dataclass(eq=False)
class M:
    """an object of a second pool: a nested an(...) as a whole branch condition asks whether one with m.v == x.<attr> exists"""
    v: Any = 0
    w: Any = 0


@symbol
@dataclass(eq=False)
class M2(M):
    pass


from entity_query_language import predicate as _predicate


@_predicate
def n_gt(o, attr, t=2):
    """a function predicate as (part of) a branch condition; every call is a variable of its own in the expression tree"""
    return getattr(o, attr) > t


POOL = []        # the M objects of the case that is being checked (set by _objs)


CUBE = [[a, b, c] for a in (1, 3) for b in (1, 3) for c in (1, 3)]
CONDS = [["a", 2], ["b", 2], ["c", 2], ["a", 0]]
SIZES = {"quick": 4, "thorough": 5}   # quick reaches base + 3 alternatives, the shortest chain where the two styles differ


def shapes(n):
    """all trees with exactly n nodes; a node = (refinement child, alternative child)"""
    if n == 0:
        return [None]
    out = []
    for i in range(n):
        for l in shapes(i):
            for r in shapes(n - 1 - i):
                out.append((l, r))
    return out


def label(shape, conds, counter=None):
    counter = counter if counter is not None else [0]
    if shape is None:
        return None
    i = counter[0]
    counter[0] += 1
    ref = label(shape[0], conds, counter)
    alt = label(shape[1], conds, counter)
    return [conds[i], f"t{i}", ref, alt]


def _has_ref_and_alt(node):
    if node is None:
        return False
    return (node[2] is not None and node[3] is not None) or _has_ref_and_alt(node[2]) or _has_ref_and_alt(node[3])


def _longest_alt_chain(node):
    if node is None:
        return 0
    n, a = 0, node[3]
    while a is not None:
        n += 1
        a = a[3]
    return max(n, _longest_alt_chain(node[2]), _longest_alt_chain(node[3]))


def count_nodes(node):
    return 0 if node is None else 1 + count_nodes(node[2]) + count_nodes(node[3])


def all_trees(max_nodes):
    for n in range(1, max_nodes + 1):
        for sh in shapes(n):
            for conds in itertools.product(CONDS, repeat=n):
                yield label(sh, list(conds))


def count_all(max_nodes):
    return sum(len(shapes(n)) * len(CONDS) ** n for n in range(1, max_nodes + 1))


def exhaustive_info(tier):
    n = SIZES[tier]
    return {"exhaustive": True, "bound": f"all {count_all(n)} rule trees with <= {n} branches (every shape x every condition "
                                         f"assignment from 4 conditions) on the 8-object cube; every ordered pair of the 10 kinds of branch "
                                         f"condition on each of the four 3-branch tree shapes (400 combinations, "
                                         f"{1 if tier == 'quick' else 5} random instantiation(s) each; pairwise coverage, not exhaustive in the "
                                         f"parameters); random part sampled"}


def plan(tier, seed):
    nsh = 16
    specs = [{"kind": "exh", "size": SIZES[tier], "stride": nsh, "offset": i} for i in range(nsh)]
    n = 60 if tier == "quick" else 800
    specs += [{"kind": "rand", "n": n, "sub": i} for i in range(nsh)]
    specs += [{"kind": "join", "n": n, "sub": i} for i in range(nsh)]
    specs += [{"kind": "flat", "n": n // 2, "sub": i} for i in range(nsh)]
    specs += [{"kind": "condpairs", "reps": 1 if tier == "quick" else 5, "stride": nsh, "offset": i, "sub": 700 + i} for i in range(nsh)]
    return specs


def floors(tier):
    return {"distinct_nontrivial": 300, "re:ExceptIf(@.*)?\\.enter": 500, "re:Alternative(@.*)?\\.enter": 500,
            "cls:shape:ref_in_ref": 20, "cls:shape:ref_in_alt": 20, "cls:shape:alt_in_ref": 20, "cls:shape:alt_chain": 20,
            "cls:overridden": 200, "cls:alt_fired": 200, "cls:caching_off": 50, "cls:conclusions_spelled_positionally": 100, "cls:preceded_by_an_evaluation_in_which_user_code_raised": 60, "cls:earlier_rule_concluded_a_subclass_for_the_same_objects": 100, "cls:bare_call_as_branch_condition": 150, "cls:or_of_operands_with_different_variables": 100,
            "cls:nested_query_as_whole_branch_condition": 60, "cls:function_predicate_in_branch_condition": 150, "cls:for_all_as_branch_condition": 100, "condition_kind_pairs_instantiated": 1300, "cls:scale:280_to_600_items": 80, "cls:conclusion_field_is_a_nested_query": 100, "cls:matches_are_parent_element_pairs": 300, "cls:parent_with_several_elements": 250, "cls:conclusion_value_is_a_domain_variable": 60,
            "cls:style:sibling_alternatives": 200, "cls:join_in_tree": 300, "cls:tree_extended_after_it_was_evaluated": 150, "cls:join_item_with_two_links": 200, "cls:alternative_declared_before_refinement": 200, "re:cls:longest_alternative_chain=[3-9]": 50}


def _rand_cond(rng, depth=0):
    k = rng.random()
    if k < 0.25:
        a1, a2 = rng.sample("abc", 2)
        return ["cmp2", a1, a2]                     # literal-free: the operator caches are actually consulted
    if k < 0.45 and depth == 0:
        return ["and2", _rand_cond(rng, 1), _rand_cond(rng, 1)]
    if k < 0.6:
        return [rng.choice(["bare", "bare", "nbare"]), rng.choice(["big", "hi"])]
    if k < 0.66:
        return ["pred", rng.choice("abc"), rng.choice([None, 1, 3])]
    if k < 0.74 and depth == 0:
        simple = lambda: [rng.choice("abc"), rng.randint(1, 3)]
        pred = lambda: ["pred", rng.choice("abc"), rng.choice([None, 1, 3])]
        return ["or2"] + rng.choice([[simple(), pred()], [pred(), simple()], [pred(), pred()], [simple(), ["bare", "big"]]])
    if k < 0.78 and depth == 0:
        return ["exq", rng.choice("abc")]
    if k < 0.82:
        return ["fall", rng.choice("abc")]
    if k < 0.86:
        return ["fa", rng.randint(0, 3)]
    return [rng.choice("abc"), rng.randint(0, 3)]


COND_KINDS = ["cmp2", "and2", "bare", "nbare", "pred", "or2", "exq", "fall", "fa", "simple"]


def _cond_of_kind(rng, kind):
    """a branch condition of the given kind (for the pairwise enumeration of condition kinds over the small tree shapes)"""
    simple = lambda: [rng.choice("abc"), rng.randint(0, 3)]
    pred = lambda: ["pred", rng.choice("abc"), rng.choice([None, 1, 3])]
    if kind == "cmp2":
        a1, a2 = rng.sample("abc", 2)
        return ["cmp2", a1, a2]
    if kind == "and2":
        return ["and2", _cond_of_kind(rng, rng.choice(["cmp2", "bare", "pred", "fall", "simple"])),
                _cond_of_kind(rng, rng.choice(["cmp2", "nbare", "pred", "simple"]))]
    if kind in ("bare", "nbare"):
        return [kind, rng.choice(["big", "hi"])]
    if kind == "pred":
        return pred()
    if kind == "or2":
        return ["or2"] + rng.choice([[simple(), pred()], [pred(), simple()], [pred(), pred()], [simple(), ["bare", "big"]]])
    if kind == "exq":
        return ["exq", rng.choice("abc")]
    if kind == "fall":
        return ["fall", rng.choice("abc")]
    if kind == "fa":
        return ["fa", rng.randint(0, 3)]
    return simple()


def gen_pair_case(rng, k_base, k1, k2, shape_no):
    """base of kind k_base with two further branches of kinds k1, k2 arranged as: 0 refinement + alternative of the base,
    1 refinement with its own alternative, 2 chain of two alternatives, 3 refinement inside a refinement"""
    leaf = (None, None)
    shape = [(leaf, leaf), ((None, leaf), None), (None, (None, leaf)), ((leaf, None), None)][shape_no]
    case = gen_case(rng)
    tree = label(shape, [_cond_of_kind(rng, k_base), _cond_of_kind(rng, k1), _cond_of_kind(rng, k2)])

    def no_alt_for_exq(node):
        if node is None:
            return
        if node[0][0] == "exq" and node[3] is not None:
            node[0] = ["a", 2]
        no_alt_for_exq(node[2])
        no_alt_for_exq(node[3])
    no_alt_for_exq(tree)
    case["tree"] = tree
    case["pair"] = [k_base, k1, k2, shape_no]
    if not case.get("concl_subq"):
        case["pool"] = [[v, rng.randint(1, 4), rng.random() < 0.4] for v in rng.sample([1, 2, 3, 4], rng.randint(2, 4))]
    case["incremental"] = False
    return case


def gen_case(rng):
    n = rng.randint(1, 5)
    sh = rng.choice(shapes(n))
    conds = [_rand_cond(rng) for _ in range(n)]
    data = [[rng.randint(1, 4) for _ in range(3)] for _ in range(rng.randint(3, 7))]
    # the second pool for nested-query branch conditions: distinct values, so at most one object matches an item, and items
    # with equal attribute values share their match
    pool = [[v, rng.randint(1, 4), rng.random() < 0.4] for v in rng.sample([1, 2, 3, 4], rng.randint(1, 4))]
    if rng.random() < 0.12:
        # focus: a nested query is the whole condition of a refinement, its match comes from the second operand of its or_, and
        # several items share the matching object
        n = max(n, 2)
        sh = rng.choice([s_ for s_ in shapes(n) if s_[0] is not None])
        conds = [_rand_cond(rng) for _ in range(n)]
        pool = [[v, rng.choice([3, 4, 4, 1]), rng.random() < 0.15] for v in rng.sample([1, 2, 3], rng.randint(1, 3))]
        data = [[rng.choice([1, 2, 2, 3]) for _ in range(3)] for _ in range(rng.randint(3, 7))]
        tree = label(sh, conds)
        tree[2][0] = ["exq", rng.choice("abc")]
    else:
        tree = label(sh, conds)

    def no_alt_for_exq(node):
        # (like a joining branch: a nested query brings a variable of its own, "the branches before it did not fire" is only
        #  unambiguous for a branch whose rows are the rows of its context)
        if node is None:
            return
        if node[0][0] == "exq" and node[3] is not None:
            node[0] = ["a", 2]
        no_alt_for_exq(node[2])
        no_alt_for_exq(node[3])
    no_alt_for_exq(tree)
    if rng.random() < 0.03:
        # SIZE: 280-600 items go through every branch condition, the tree is evaluated twice
        data = [[rng.randint(1, 4) for _ in range(3)] for _ in range(rng.randint(280, 600))]
    concl_subq = rng.random() < 0.15 and len(data) < 100
    if concl_subq:
        pool = [[v, rng.randint(1, 4), rng.random() < 0.4] for v in (1, 2, 3, 4)]     # every item has exactly one match
        rng.shuffle(pool)
    return {"tree": tree, "pool": pool, "concl_subq": concl_subq, "data": data, "caching": rng.random() < 0.7, "sibling": rng.random() < 0.5,
            "alt_first": rng.random() < 0.4, "incremental": rng.random() < 0.4, "positional": rng.random() < 0.3,
            "decoy_rule": rng.random() < 0.2, "boom_at": rng.choice([0, 0, 1, 2, 3, 5, 8])}


def gen_join_case(rng):
    """a tree in which one non-root branch joins a second variable (l.src == x [and l.w > t]); branches refining it may
    test the link (l.w > t); its conclusion and those below it carry the link"""
    for _ in range(50):
        n = rng.randint(2, 4)
        sh = rng.choice(shapes(n))
        tree = label(sh, [[rng.choice("abc"), rng.randint(0, 3)] for _ in range(n)])
        nodes = []

        def walk(node, bound, is_root):
            if node is None:
                return
            nodes.append((node, bound, is_root))
            walk(node[2], bound, False)       # provisional, fixed below once the join node is chosen
            walk(node[3], bound, False)
        walk(tree, False, True)
        # the joining branch has no alternative of its own: "the branches before it did not fire" is only unambiguous for a
        # branch whose rows are the rows of its context (an alternative of a join would be asked once per candidate link)
        cands = [nd for nd, _, root in nodes if not root and nd[3] is None]
        if not cands:
            continue
        jn = rng.choice(cands)
        jn[0] = ["join", rng.randint(0, 2)]

        def mark(node):     # branches that refine the join branch see the link bound
            if node is None:
                return
            if rng.random() < 0.5:
                node[0] = ["lw", rng.randint(0, 2)]
            mark(node[2])
            mark(node[3])
        mark(jn[2])
        break
    items = [[rng.randint(1, 4) for _ in range(3)] for _ in range(rng.randint(3, 6))]
    links = []
    for i in range(len(items)):
        for _ in range(rng.choice([0, 0, 1, 2, 2])):
            links.append([i, rng.randint(0, 3)])
    rng.shuffle(links)
    return {"tree": tree, "data": items, "links": links, "caching": rng.random() < 0.7, "sibling": rng.random() < 0.5,
            "alt_first": rng.random() < 0.3, "join": True}


def cases(spec, ctx):
    if spec["kind"] == "condpairs":
        # every ordered pair of branch-condition kinds on every 3-branch tree shape (base kind drawn at random)
        combos = [(k1, k2, sh) for k1 in COND_KINDS for k2 in COND_KINDS for sh in range(4)]
        for j, (k1, k2, sh) in enumerate(combos):
            if j % spec["stride"] != spec["offset"]:
                continue
            for r in range(spec["reps"]):
                rng = ctx.rng("cp", spec["sub"], j, r)
                yield gen_pair_case(rng, rng.choice(["simple", "simple", "cmp2", "pred", "fall", "bare"]), k1, k2, sh)
        return
    if spec["kind"] == "flat":
        for i in range(spec["n"]):
            yield gen_flat_case(ctx.rng("f", spec["sub"], i))
        return
    if spec["kind"] == "join":
        for i in range(spec["n"]):
            yield gen_join_case(ctx.rng("j", spec["sub"], i))
        return
    if spec["kind"] == "exh":
        for i, tree in enumerate(all_trees(spec["size"])):
            if i % spec["stride"] == spec["offset"]:
                yield {"tree": tree, "data": "cube", "caching": (i // spec["stride"]) % 5 != 0}
                if _longest_alt_chain(tree) >= 2:
                    yield {"tree": tree, "data": "cube", "caching": True, "sibling": True, "incremental": (i // spec["stride"]) % 3 == 0}
                if _has_ref_and_alt(tree):
                    yield {"tree": tree, "data": "cube", "caching": True, "alt_first": True, "sibling": (i // spec["stride"]) % 2 == 0}
        return
    for i in range(spec["n"]):
        yield gen_case(ctx.rng(spec["sub"], i))


# ------------------------------------------------------------------------------------------------ reference interpreter
def holds(cond, o):
    """cond = [attr, threshold] | ["cmp2", attr1, attr2] (x.attr1 > x.attr2, no literal) | ["and2", cond, cond] (two
    conditions passed to refinement()/alternative(), which chains them with and_)"""
    if cond[0] == "cmp2":
        return getattr(o, cond[1]) > getattr(o, cond[2])
    if cond[0] == "and2":
        return holds(cond[1], o) and holds(cond[2], o)
    if cond[0] == "fa":          # x.fa > t, the property may raise when armed
        return o.a > cond[1]
    if cond[0] == "pred":        # n_gt(x, attr[, t]): a function predicate
        return getattr(o, cond[1]) > (2 if cond[2] is None else cond[2])
    if cond[0] == "or2":         # or_(c1, c2) with operands that mention different variables (comparison / predicate call)
        return holds(cond[1], o) or holds(cond[2], o)
    if cond[0] == "fall":        # for_all(m, m.w > x.attr) over the (non-empty) second pool
        return all(m.w > getattr(o, cond[1]) for m in POOL)
    if cond[0] == "exq":         # an(entity(m, m.v == x.attr, or_(HasType(m, M2), m.w > 2))) as the WHOLE branch condition
        return any(m.v == getattr(o, cond[1]) and (isinstance(m, M2) or m.w > 2) for m in POOL)
    if cond[0] == "bare":        # a bare method call as the whole condition of a branch: x.big()
        return bool(getattr(o, cond[1])())
    if cond[0] == "nbare":       # ... and its negation: not_(x.big())
        return not getattr(o, cond[1])()
    return getattr(o, cond[0]) > cond[1]


def sym(cond, x):
    """the list of EQL conditions for a branch condition"""
    if cond[0] == "cmp2":
        return [getattr(x, cond[1]) > getattr(x, cond[2])]
    if cond[0] == "and2":
        return sym(cond[1], x) + sym(cond[2], x)
    if cond[0] == "fa":
        return [x.fa > cond[1]]
    if cond[0] == "pred":
        return [n_gt(x, cond[1]) if cond[2] is None else n_gt(x, cond[1], cond[2])]
    if cond[0] == "or2":
        from entity_query_language import or_
        return [or_(sym(cond[1], x)[0], sym(cond[2], x)[0])]
    if cond[0] == "fall":
        from entity_query_language import let, for_all
        m = let(M, POOL)
        return [for_all(m, m.w > getattr(x, cond[1]))]
    if cond[0] == "exq":
        from entity_query_language import an, entity, let, or_, HasType
        m = let(M, POOL)
        return [an(entity(m, m.v == getattr(x, cond[1]), or_(HasType(m, M2), m.w > 2)))]
    if cond[0] == "bare":
        return [getattr(x, cond[1])()]
    if cond[0] == "nbare":
        from entity_query_language import not_
        return [not_(getattr(x, cond[1])())]
    return [getattr(x, cond[0]) > cond[1]]


def fire(node, o):
    cond, tag, ref, alt = node
    if holds(cond, o):
        if ref is not None:
            t = fire(ref, o)
            if t is not None:
                return t
        return tag
    if alt is not None:
        return fire(alt, o)
    return None


def expected(case, objs, links=None):
    if case.get("join"):
        out = []
        for i, o in enumerate(objs):
            for tag, l in jfire(case["tree"], o, None, links):
                out.append((tag, i, links.index(l) if l is not None else None))
        return out
    return [(fire(case["tree"], o), i) for i, o in enumerate(objs) if fire(case["tree"], o) is not None]


def _rows(cond, x, l, links):
    """the link bindings (None = no link bound) for which the branch condition holds"""
    if cond[0] == "join":
        cands = [l] if l is not None else [k for k in links if k.src is x]
        return [k for k in cands if k.src is x and k.w > cond[1]]
    if cond[0] == "lw":
        return [l] if (l is not None and l.w > cond[1]) else []
    return [l] if holds(cond, x) else []


def jfire(node, x, l, links):
    """ripple-down with a joined variable: one row per link, every row keeps its own most specific conclusion"""
    if node is None:
        return []
    rows = _rows(node[0], x, l, links)
    if rows:
        out = []
        for l2 in rows:
            sub = jfire(node[2], x, l2, links)
            out.extend(sub if sub else [(node[1], l2)])
        return out
    return jfire(node[3], x, l, links)


# ------------------------------------------------------------------------------------------------ real code
def _sym_conds(cond, x, l):
    if cond[0] == "join":
        return [l.src == x, l.w > cond[1]]
    if cond[0] == "lw":
        return [l.w > cond[1]]
    return sym(cond, x)


def _build_join_branch(node, x, l, out, bound, sibling, alt_first, with_alt=True):
    from entity_query_language import Add
    from entity_query_language.rule import refinement, alternative
    cond, tag, ref, alt = node
    bound_here = bound or cond[0] == "join"
    Add(out, Out(tag=tag, src=x, link=l) if bound_here else Out(tag=tag, src=x))

    def declare_refinement():
        if ref is not None:
            with refinement(*_sym_conds(ref[0], x, l)):
                _build_join_branch(ref, x, l, out, bound_here, sibling, alt_first)

    def declare_alternatives():
        a = alt
        if not with_alt or a is None:
            return
        if not sibling:
            with alternative(*_sym_conds(a[0], x, l)):
                _build_join_branch(a, x, l, out, bound, sibling, alt_first)
            return
        while a is not None:
            with alternative(*_sym_conds(a[0], x, l)):
                _build_join_branch(a, x, l, out, bound, sibling, alt_first, with_alt=False)
            a = a[3]

    if alt_first:
        declare_alternatives()
        declare_refinement()
    else:
        declare_refinement()
        declare_alternatives()


CONCLUSION_SUBQUERY = [False]         # set per case by build(): conclusions carry a nested query as a field value
POSITIONAL_CONCLUSIONS = [False]      # set per case by build(): conclusions spelled Out(tag, x) instead of Out(tag=tag, src=x)


def _build_branch(node, x, out, sibling=False, with_alt=True, alt_first=False):
    """sibling=False: every alternative is declared inside the `with` block of the branch before it (nested style);
    sibling=True : the alternatives of a chain are declared one after the other at the same level (the style of the
    repository's own tests).  alt_first: a branch's alternatives are declared before its refinement.
    All spellings describe the same ripple-down tree."""
    from entity_query_language import Add
    from entity_query_language.rule import refinement, alternative
    cond, tag, ref, alt = node
    if CONCLUSION_SUBQUERY[0]:
        # the conclusion's third field is a nested query (with an or_ in it) that occurs nowhere else in the tree: the one
        # pool object whose value is x.a
        from entity_query_language import an, entity, let, or_, HasType
        m = let(M, POOL)
        # (the last field reads a property that may raise when armed: user code failing while the VALUE of a conclusion is built)
        Add(out, Out(tag=tag, src=x, link=an(entity(m, m.v == x.a, or_(HasType(m, M2), m.w > 0))), world=x.fa))
    else:
        Add(out, Out(tag, x) if POSITIONAL_CONCLUSIONS[0] else Out(tag=tag, src=x))

    def declare_refinement():
        if ref is not None:
            with refinement(*sym(ref[0], x)):
                _build_branch(ref, x, out, sibling, alt_first=alt_first)

    def declare_alternatives():
        a = alt
        if not with_alt or a is None:
            return
        if not sibling:
            with alternative(*sym(a[0], x)):
                _build_branch(a, x, out, sibling, alt_first=alt_first)
            return
        while a is not None:
            with alternative(*sym(a[0], x)):
                _build_branch(a, x, out, sibling, with_alt=False, alt_first=alt_first)
            a = a[3]

    if alt_first:
        declare_alternatives()
        declare_refinement()
    else:
        declare_refinement()
        declare_alternatives()


def build(case, objs, links=None):
    from entity_query_language import symbolic_mode, let, entity, infer
    from entity_query_language.symbolic import rule_mode
    tree = case["tree"]
    POSITIONAL_CONCLUSIONS[0] = bool(case.get("positional"))
    CONCLUSION_SUBQUERY[0] = bool(case.get("concl_subq")) and not case.get("join")
    with symbolic_mode():
        x = let(N, objs)
        out = let(Out)
        l = let(L, links) if case.get("join") else None
        q = infer(entity(out, *sym(tree[0], x)))
    with rule_mode(q):
        if case.get("join"):
            _build_join_branch(tree, x, l, out, False, bool(case.get("sibling")), bool(case.get("alt_first")))
        else:
            _build_branch(tree, x, out, sibling=bool(case.get("sibling")), alt_first=bool(case.get("alt_first")))
    return q


def _tags(node, acc=None):
    acc = set() if acc is None else acc
    if node is not None:
        acc.add(node[1])
        _tags(node[2], acc)
        _tags(node[3], acc)
    return acc


def encode(o, idx, lidx=None):
    if type(o) is not Out:
        return ("NOT_AN_OUT:" + type(o).__name__, -1)
    if CONCLUSION_SUBQUERY[0] and not (isinstance(o.link, M) and any(o.link is m for m in POOL) and o.link.v == getattr(o.src, "a", None)):
        return (str(o.tag) + ":FIELD_IS_NOT_THE_SOLUTION_OF_ITS_QUERY:" + type(o.link).__name__, idx.get(id(o.src), -1))
    if lidx is not None:
        return (o.tag, idx.get(id(o.src), -1), lidx.get(id(o.link)) if o.link is not None else None)
    return (o.tag, idx.get(id(o.src), -1))


def run(case, objs, caching, times=1, links=None):
    from entity_query_language.cache_data import enable_caching, disable_caching
    (enable_caching if caching else disable_caching)()
    try:
        links = links if links is not None else _links(case, objs)
        if case.get("decoy_rule") and not case.get("join"):
            # an earlier rule of the same process concluded a SUBCLASS of the conclusion class, with the same field values, for the
            # very same objects: the tree below still prescribes (and builds) plain Out instances
            from entity_query_language import symbolic_mode as _sm, let as _let, entity as _entity, infer as _infer
            from entity_query_language.symbolic import rule_mode as _rm
            for t_ in sorted(_tags(case["tree"])):
                with _rm():
                    x_ = _let(N, objs)
                    dq = _infer(_entity(OutSub(tag=t_, src=x_), x_.a > -1))
                list(dq.evaluate())
        q = build(case, objs, links)
        if case.get("boom_at") and ("'fa'" in repr(case["tree"]) or CONCLUSION_SUBQUERY[0]):
            # an evaluation in which user code (a property read by a branch condition) raises; the same tree is evaluated again
            from .. import data as _D
            _D.arm_fault(case["boom_at"])
            try:
                list(q.evaluate())
            except _D.Boom:
                pass
            finally:
                _D.arm_fault(None)
        idx = {id(o): i for i, o in enumerate(objs)}
        lidx = {id(k): i for i, k in enumerate(links)} if case.get("join") else None
        return [[encode(o, idx, lidx) for o in q.evaluate()] for _ in range(times)]
    finally:
        enable_caching()


def run_incremental(case, objs, caching):
    """The ripple-down workflow: build the tree without the root's alternatives, evaluate, add the alternatives in a later
    rule_mode(query) session, evaluate three more times.  -> [(rows, expected rows), ...]"""
    from entity_query_language import symbolic_mode, let, entity, infer
    from entity_query_language.rule import alternative
    from entity_query_language.symbolic import rule_mode
    from entity_query_language.cache_data import enable_caching, disable_caching
    tree = case["tree"]
    POSITIONAL_CONCLUSIONS[0] = bool(case.get("positional"))
    CONCLUSION_SUBQUERY[0] = bool(case.get("concl_subq"))
    first = [tree[0], tree[1], tree[2], None]
    idx = {id(o): i for i, o in enumerate(objs)}
    (enable_caching if caching else disable_caching)()
    try:
        with symbolic_mode():
            x = let(N, objs)
            out = let(Out)
            q = infer(entity(out, *sym(tree[0], x)))
        with rule_mode(q):
            _build_branch(first, x, out, sibling=bool(case.get("sibling")), alt_first=False)
        res = [([encode(o, idx) for o in q.evaluate()], expected({"tree": first}, objs))]
        with rule_mode(q):              # a later session extends the evaluated tree
            a = tree[3]
            while a is not None:
                with alternative(*sym(a[0], x)):
                    _build_branch(a, x, out, sibling=True, with_alt=False)
                a = a[3]
        for _ in range(3):
            res.append(([encode(o, idx) for o in q.evaluate()], expected({"tree": tree}, objs)))
        return res
    finally:
        enable_caching()


def _links(case, objs):
    return [L(src=objs[i], w=w) for i, w in case.get("links", [])] if case.get("join") else None


def _objs(case):
    POOL[:] = [(M2 if m2 else M)(v=v, w=w) for v, w, m2 in case.get("pool", [])]
    data = CUBE if case["data"] == "cube" else case["data"]
    return [N(*v) for v in data]


def run_for_c05(case, caching, times):
    objs = _objs(case)
    if case.get("incremental") and not case.get("join") and case["tree"][3] is not None:
        # the evaluate - extend in a later rule_mode(query) session - evaluate workflow: the evaluations AFTER the extension
        res = run_incremental(case, objs, caching)
        return [rows for rows, _ in res[1:]], res[-1][1], True
    return run(case, objs, caching, times), expected(case, objs), True


def _shape_tags(node, under=None, acc=None):
    acc = acc if acc is not None else set()
    if node is None:
        return acc
    if node[2] is not None:
        acc.add("ref_in_" + (under or "base"))
        _shape_tags(node[2], "ref", acc)
    if node[3] is not None:
        acc.add("alt_in_" + (under or "base"))
        if under == "alt":
            acc.add("alt_chain")
        _shape_tags(node[3], "alt", acc)
    return acc


def gen_flat_case(rng):
    """a tree over (parent, flattened element): the matches of the base are (p, e) pairs, several per parent"""
    from .. import ix
    return {"flat": True, "world": ix.gen_world(rng), "k0": rng.randint(1, 4), "ref": rng.choice([None, 1, 2, 3, 4]),
            "refalt": rng.choice([None, None, 2, 4]), "alt": rng.choice([None, 0, 2, 4, 99]), "caching": rng.random() < 0.7,
            # (the element is always constrained by the base: a conclusion over an expression that no condition before it has
            #  bound has no assignment to take the value from)
            "e_in_base": True,
            # a fifth: every conclusion adds the PARENT VARIABLE itself (a variable with a given domain) instead of a new instance
            "value_is_parent": rng.random() < 0.2}


def check_flat_case(case, ctx):
    """base (p.k >= k0 [, e.n >= 1]) -> 'base' | refinement e.n > r -> 'ref' | its alternative e.n > ra -> 'refalt' |
    alternative of the base e.n > a -> 'alt';  e = flatten(p.items); every conclusion carries the pair (p, e)"""
    from entity_query_language import symbolic_mode, let, entity, infer, Add
    from entity_query_language.entity import flatten
    from entity_query_language.rule import refinement, alternative
    from entity_query_language.symbolic import rule_mode
    from entity_query_language.cache_data import enable_caching, disable_caching
    from .. import ix
    es, ps = ix.build_world(case["world"])
    ctx.cls("cls:matches_are_parent_element_pairs")
    ctx.cls("cls:caching_on" if case["caching"] else "cls:caching_off")
    exp = []
    for pi, p in enumerate(ps):
        for x in p.items:
            if p.k >= case["k0"]:
                if case["ref"] is not None and x.n > case["ref"]:
                    exp.append(("ref", pi, x.n))
                elif case["ref"] is not None and case["refalt"] is not None and x.n > case["refalt"]:
                    exp.append(("refalt", pi, x.n))
                else:
                    exp.append(("base", pi, x.n))
            elif case["alt"] is not None and x.n > case["alt"]:
                exp.append(("alt", pi, x.n))
    if len({t for t, _, _ in exp}) >= 2:
        ctx.nontrivial()
    if any(len(p.items) >= 2 for p in ps):
        ctx.cls("cls:parent_with_several_elements")
    (enable_caching if case["caching"] else disable_caching)()
    try:
        with symbolic_mode():
            p = let(ix.Par, ps)
            e = flatten(p.items)
            out = let(Out)
            q = infer(entity(out, p.k >= case["k0"], *([e.n >= 1] if case["e_in_base"] else [])))
        vp = bool(case.get("value_is_parent"))
        concl = (lambda tag_: p) if vp else (lambda tag_: Out(tag=tag_, src=p, link=e))
        with rule_mode(q):
            Add(out, concl("base"))
            if case["ref"] is not None:
                with refinement(e.n > case["ref"]):
                    Add(out, concl("ref"))
                    if case["refalt"] is not None:
                        with alternative(e.n > case["refalt"]):
                            Add(out, concl("refalt"))
            if case["alt"] is not None:
                with alternative(e.n > case["alt"]):
                    Add(out, concl("alt"))
        pidx = {id(p_): i for i, p_ in enumerate(ps)}
        for rnd in range(2):
            if vp:
                # the concluded objects are the existing parents; how often one parent is concluded (once per element?) is not
                # specified, which parents are is
                ctx.cls("cls:conclusion_value_is_a_domain_variable")
                got_p = {pidx.get(id(o), -1) for o in q.evaluate()}
                exp_p = {pi for _, pi, _ in exp}
                if got_p != exp_p:
                    ctx.fail("CONCLUSIONS:parents:" + ("missing" if exp_p - got_p else "") + ("+extra" if got_p - exp_p else ""),
                             {"evaluation": rnd + 1, "missing": sorted(exp_p - got_p), "extra": sorted(got_p - exp_p)})
                    return
                continue
            got = [(o.tag, pidx.get(id(o.src), -1), getattr(o.link, "n", "?")) if type(o) is Out else ("NOT_AN_OUT", -1, -1)
                   for o in q.evaluate()]
            if Counter(got) != Counter(exp):
                miss = sorted((Counter(exp) - Counter(got)).elements())
                extra = sorted((Counter(got) - Counter(exp)).elements())
                ctx.fail("CONCLUSIONS:pairs:" + ("missing" if miss else "") + ("+extra" if extra else ""),
                         {"evaluation": rnd + 1, "missing": miss[:8], "extra": extra[:8], "n_expected": len(exp), "n_observed": len(got)})
                return
    except Exception as e_:
        import traceback
        ctx.fail("EXC", f"{type(e_).__name__}: {e_}\n{traceback.format_exc()[-800:]}")
    finally:
        enable_caching()
    ctx.sample({"flat": True, "expected": exp[:4]})


def check_case(case, ctx):
    if case.get("flat"):
        return check_flat_case(case, ctx)
    objs = _objs(case)
    links = _links(case, objs)
    exp = expected(case, objs, links)
    if case.get("join"):
        ctx.cls("cls:join_in_tree")
        per_item = Counter(i for i, _ in case["links"])
        if any(v >= 2 for v in per_item.values()):
            ctx.cls("cls:join_item_with_two_links")
    for t in _shape_tags(case["tree"]):
        ctx.cls("cls:shape:" + t)
    ctx.cls(f"cls:branches={count_nodes(case['tree'])}")
    if case["data"] != "cube" and len(case["data"]) >= 280:
        ctx.cls("cls:scale:280_to_600_items")
    ctx.cls("cls:style:sibling_alternatives" if case.get("sibling") else "cls:style:nested_alternatives")
    ctx.cls(f"cls:longest_alternative_chain={_longest_alt_chain(case['tree'])}")
    if case.get("alt_first") and _has_ref_and_alt(case["tree"]):
        ctx.cls("cls:alternative_declared_before_refinement")
    ctx.cls("cls:caching_on" if case["caching"] else "cls:caching_off")
    if case.get("positional"):
        ctx.cls("cls:conclusions_spelled_positionally")
    if case.get("boom_at") and ("'fa'" in repr(case["tree"]) or (case.get("concl_subq") and not case.get("join"))):
        ctx.cls("cls:preceded_by_an_evaluation_in_which_user_code_raised")
    if case.get("decoy_rule") and not case.get("join"):
        ctx.cls("cls:earlier_rule_concluded_a_subclass_for_the_same_objects")
    if case.get("concl_subq") and not case.get("join"):
        ctx.cls("cls:conclusion_field_is_a_nested_query")
    if case.get("pair"):
        ctx.count("condition_kind_pairs_instantiated")
    for kind_, name_ in (("'or2'", "or_of_operands_with_different_variables"), ("'exq'", "nested_query_as_whole_branch_condition"),
                         ("'pred'", "function_predicate_in_branch_condition"), ("'fall'", "for_all_as_branch_condition")):
        if kind_ in repr(case["tree"]):
            ctx.cls("cls:" + name_)
    if "bare" in repr(case["tree"]):
        ctx.cls("cls:bare_call_as_branch_condition")
    tags = {r[0] for r in exp}
    if case.get("join"):
        overridden = any(r[0] != case["tree"][1] for r in exp)
        alt_fired = False
    else:
        overridden = any(holds(case["tree"][0], o) and fire(case["tree"], o) != case["tree"][1] for o in objs)
        alt_fired = any(not holds(case["tree"][0], o) and fire(case["tree"], o) is not None for o in objs)
    if overridden:
        ctx.cls("cls:overridden")
    if alt_fired:
        ctx.cls("cls:alt_fired")
    if len(tags) >= 2 and (len(exp) < len(objs) or overridden):
        ctx.nontrivial()
    try:
        got = run(case, objs, case["caching"], times=2, links=links)
        got, got_again = got[0], got[1]
    except Exception as e:
        import traceback
        ctx.fail("EXC", f"{type(e).__name__}: {e}\n{traceback.format_exc()[-800:]}")
        return
    if Counter(got) != Counter(exp):
        miss = list((Counter(exp) - Counter(got)).elements())
        extra = list((Counter(got) - Counter(exp)).elements())
        ctx.fail("CONCLUSIONS:" + ("missing" if miss else "") + ("+extra" if extra else ""),
                 {"missing": miss[:8], "extra": extra[:8], "n_expected": len(exp), "n_observed": len(got)})
    elif Counter(got_again) != Counter(exp):
        ctx.fail("CONCLUSIONS:second_evaluation", {"n_expected": len(exp), "n_observed": len(got_again),
                                                   "missing": list((Counter(exp) - Counter(got_again)).elements())[:8],
                                                   "extra": list((Counter(got_again) - Counter(exp)).elements())[:8]})
    if case.get("incremental") and not case.get("join") and case["tree"][3] is not None:
        ctx.cls("cls:tree_extended_after_it_was_evaluated")
        try:
            for n, (rows, want) in enumerate(run_incremental(case, _objs(case) if case["data"] != "cube" else objs, case["caching"])):
                if Counter(rows) != Counter(want):
                    ctx.fail("CONCLUSIONS:incremental", {"evaluation_no": n + 1, "extended": n >= 1,
                                                         "missing": list((Counter(want) - Counter(rows)).elements())[:8],
                                                         "extra": list((Counter(rows) - Counter(want)).elements())[:8]})
                    break
        except Exception as e:
            import traceback
            ctx.fail("EXC", f"incremental: {type(e).__name__}: {e}\n{traceback.format_exc()[-800:]}")
    ctx.sample({"tree": case["tree"], "data": case["data"], "links": case.get("links"), "expected": exp[:6], "observed": got[:6]})


def classify(f, ctx):
    return None
