"""C01  A single-variable query is an exact, ordered, duplicate-free domain filter.

Refuting event: one (domain, values, condition) for which list(an(entity(x, cond)).evaluate()), compared BY IDENTITY
AND AS A LIST, differs from [o for o in domain if holds(cond, o)].
"""
from __future__ import annotations

import itertools

from .. import cond as C
from .. import data as D
from .. import harness as H
from .. import monitors as M

ID = "C01"
LEVEL = "exploration"
RULE = ("(a) exhaustive: every condition tree with <= N connective nodes (and/or/not; N=2 quick, 3 thorough) over a "
        "6-leaf alphabet (==, <, membership, truthy attribute, contains, >= on an indexed dict) evaluated on a "
        "truth-table-complete 32-object domain; (b) random: depth<=5 trees over the full condition vocabulary (six "
        "comparison operators with attribute/literal/reflected operands, chained attributes, x.d[k], method calls, "
        "string methods, contains/in_ both ways, @predicate functions, Predicate subclasses, HasType, and_/or_/not_, "
        "&,|,~, n-ary) on 3-6 random objects; (c) API spellings (let vs T(From(d)), entity vs an(x, ...), a vs an, "
        "several conditions passed to entity); (d) given domains that hold no instance of the type (empty / other type only) while "
        "instances exist in the process, results consumed while the consumer is inside a symbolic block, conditions whose "
        "user method constructs a @symbol object; (e) very wide and very deep conditions (and_/or_ with 8-30 operands, 6-14 nested negations, right-deep chains of 8-16 alternating connectives); (f) histories: 1-3 evaluations of the same query, an earlier evaluation left after a few results (closed, or kept alive), an earlier complete evaluation under the other caching switch. A case is non-trivial when the oracle result is neither empty nor the "
        "whole domain; distinct = distinct (condition, data, spelling) by structural hash.")
RULE += " Size cases (every tier): domains of 80-300 objects under two-operand conditions (also negated, also with a 66-80 element membership container), evaluated three times; one domain of 1300-1450 objects per four shards."
LEVEL_TEXT = ("Reference-model monitoring at the API boundary: the real query is built and evaluated, its result list is "
              "compared by identity and order with a plain-Python filter of the same domain. All condition trees up to "
              "a size bound over a 6-leaf alphabet are enumerated completely on a truth-table-complete domain; beyond "
              "the bound trees are sampled over the whole public vocabulary. Holds on the executions produced, not a proof.")
LEVEL_NOTE = ("Trusted: the ~150-line oracle (ordinary Python semantics of the AST) and the AST->EQL translation; both are "
              "cross-checked by C03/C18. Monitors (node path counters, leaf truth-flag invariant) give non-vacuity "
              "evidence; a path never reached turns the verdict into inconclusive.")
TECHNIQUE = "runtime monitoring: differential oracle on results (identity+order), bounded-exhaustive + random workloads, node/leaf monitors"
ASSUMPTIONS = [
    "the oracle (eqlmon/cond.py holds()) gives conditions their ordinary Python meaning; it is cross-checked by C03's "
    "complement identity and C18's oracle-free metamorphic relations",
    "domains contain distinct objects and no falsy attribute values (falsy values are C19's data class)",
    "held on the executions produced, not proved: trees deeper than 5 and domains larger than 32 are not explored",
]

# ---- the truth-table-complete world: 5 independent binary attributes -> 32 objects, in a fixed scrambled order
LEAVES = [
    ["cmp", "==", ["v", 0, [["a", "a"]]], ["lit", 1]],
    ["cmp", "<", ["v", 0, [["a", "b"]]], ["lit", 2]],
    ["in", ["lit", "x"], ["v", 0, [["a", "s"]]]],
    ["truth", ["v", 0, [["a", "flag"]]]],
    ["has", ["v", 0, [["a", "t"]]], ["lit", 2]],
    ["cmp", ">=", ["v", 0, [["a", "d"], ["i", "k"]]], ["v", 0, [["a", "a"]]]],
]


def tt_world():
    objs = []
    for a, b, s, fl, t in itertools.product((1, 3), (1, 3), ("x", "y"), (True, False), ((1,), (2,))):
        objs.append({"a": a, "b": b, "s": s, "flag": fl, "t": list(t), "d": {"k": 2}})
    # fixed scramble so that qualifying objects are interleaved with non-qualifying ones
    order = [(i * 11 + 5) % 32 for i in range(32)]
    return {"P": [objs[i] for i in order], "Q": []}


TT = tt_world()
SIZES = {"quick": 2, "thorough": 3}


def exhaustive_info(tier):
    n = SIZES[tier]
    return {"exhaustive": True,
            "bound": f"all {C.count_trees(len(LEAVES), n)} condition trees with <= {n} connective nodes over "
                     f"{len(LEAVES)} leaves on the 32-object truth-table-complete domain are enumerated completely; "
                     f"the random part (depth<=5, full vocabulary) is sampled"}


def plan(tier, seed):
    nsh = 16
    specs = [{"kind": "exh", "size": SIZES[tier], "stride": nsh, "offset": i} for i in range(nsh)]
    n_rand = 1000 if tier == "quick" else 4500
    specs += [{"kind": "rand", "n": n_rand, "sub": i} for i in range(nsh)]
    specs += [{"kind": "wide", "n": 25 if tier == "quick" else 250, "sub": 500 + i} for i in range(nsh)]
    return specs


def floors(tier):
    return {"distinct_nontrivial": 500, "re:AND(@.*)?\\.enter": 200, "re:ElseIf(@.*)?\\.enter": 200, "leaf.ok": 2000,
            "re:.*@AND\\.R\\.enter": 100, "re:.*@ElseIf\\.R\\.enter": 100, "re:.*@ElseIf\\.L\\.T": 100,
            "re:.*@ElseIf\\.L\\.F": 100, "spelling:direct": 5, "spelling:from": 5,
            "tag:fpred": 5, "tag:cpred": 5, "tag:hastype": 3, "tag:neg>=2": 20, "tag:truth": 20, "tag:in": 20,
            "tag:has": 20, "re:tag:neg:cmp.*": 60, "domain_kind:E": 100, "domain_kind:Q": 300,
            "domain:empty": 100, "abandoned_iterator_kept_alive": 500, "shape:wide_and": 60, "shape:wide_or": 60, "shape:deep_not": 60, "shape:deep_chain": 60, "shape:domain_of_more_than_1000_objects": 4, "domain:other": 100, "consumed_inside_symbolic_block": 500}


def cases(spec, ctx):
    if spec["kind"] == "exh":
        for i, tree in enumerate(C.enumerate_trees(LEAVES, spec["size"])):
            if i % spec["stride"] == spec["offset"]:
                yield {"k": "exh", "cond": tree}
        return
    if spec["kind"] == "wide":
        # very wide and very deep conditions: and_/or_ with 8-30 operands, 6-14 nested negations, right-deep chains of 8-16
        # alternating connectives
        o = dict(C.DEFAULT_OPTS)
        if spec["sub"] % 4 == 0 or spec["n"] > 100:      # (quick: one per four shards; thorough: one per shard)
            # one very long domain (more than a thousand qualifying objects pass one operator), evaluated twice
            rng = ctx.rng("h", spec["sub"])
            n = rng.randint(1300, 1450)      # about 7 in 8 satisfy the second operand: well over a thousand go through its cache
            world = {"P": [{"a": rng.randint(1, 3), "b": rng.randint(1, 8)} for _ in range(n)], "Q": []}
            cond = ["and", ["cmp", ">=", ["v", 0, [["a", "a"]]], ["lit", 1]], ["cmp", rng.choice([">", "!="]), ["v", 0, [["a", "b"]]], ["lit", 1]]]
            yield {"k": "rand", "shape": "domain_of_more_than_1000_objects", "world": world, "kind": "P", "cond": cond, "form": "entity",
                   "how": "let", "quant": "an", "split": False, "times": 2, "caching": True, "take_first": 0, "in_block": False,
                   "dom_mode": "normal"}
        from .. import multi
        for i in range(3 if spec["n"] <= 100 else 20):
            # domains of 80-300 objects under a two-operand condition (also negated, also with a long membership container),
            # evaluated three times
            rng = ctx.rng("sb", spec["sub"], i)
            sc = multi.gen_scale_case(rng, "single_big")
            yield {"k": "rand", "shape": "domain_of_80_to_300_objects", "world": sc["world"], "kind": "P", "cond": sc["cond"],
                   "form": rng.choice(["entity", "direct"]), "how": "let", "quant": "an", "split": rng.random() < 0.3, "times": 3,
                   "caching": rng.random() < 0.85, "take_first": rng.choice([0, 0, 3]), "in_block": False, "dom_mode": "normal"}
        for i in range(spec["n"]):
            rng = ctx.rng("w", spec["sub"], i)
            kind = rng.choice(["P", "Q"])
            world = D.random_world(rng, np_=(4, 7), nq=(4, 7))
            leaf = lambda: C.gen_leaf(rng, [kind], o)
            shape = rng.choice(["wide_and", "wide_or", "deep_not", "deep_chain"])
            if shape in ("wide_and", "wide_or"):
                n = rng.randint(8, 30)
                leaves = [leaf() for _ in range(n)]
                if shape == "wide_and":     # few of many operands false: keep some rows
                    leaves = [l if rng.random() < 0.25 else ["or", l, ["cmp", ">=", ["v", 0, [["a", "a"]]], ["lit", 0]]] for l in leaves]
                cond = ["and" if shape == "wide_and" else "or"] + leaves
            elif shape == "deep_not":
                cond = leaf()
                for _ in range(rng.randint(6, 14)):
                    cond = [rng.choice(["not", "~"]), cond]
            else:
                cond = leaf()
                for d in range(rng.randint(8, 16)):
                    cond = [("and", "or")[d % 2], leaf(), cond] if rng.random() < 0.7 else [("and", "or")[d % 2], cond, leaf()]
            yield {"k": "rand", "shape": shape, "world": world, "kind": kind, "cond": cond, "form": "entity", "how": "let", "quant": "an",
                   "split": False, "times": rng.choice([1, 2]), "caching": rng.random() < 0.8, "take_first": 0, "in_block": False,
                   "dom_mode": "normal"}
        return
    for i in range(spec["n"]):
        rng = ctx.rng("r", spec["sub"], i)
        kind = rng.choice(["P", "P", "P", "Q", "Q", "E"])
        world = D.random_world(rng, np_=(3, 6), nq=(3, 6))
        if kind == "E":     # distinct objects that compare equal: results are compared by identity
            D.add_equal_valued_objects(rng, world, n=(3, 6))
        d = rng.choice([1, 2, 2, 3, 3, 4, 5])
        cond = C.gen_cond(rng, [kind], d)
        form = rng.choice(["entity", "entity", "direct"])
        yield {"k": "rand", "world": world, "kind": kind, "cond": cond, "form": form,
               "how": rng.choice(["let", "let", "from"]), "quant": rng.choice(["an", "an", "a"]),
               "split": rng.random() < 0.3, "times": rng.choice([1, 2, 3]), "caching": rng.random() < 0.8,
               "take_first": rng.choice([0, 0, 0, 1, 2]), "keep_first": rng.random() < 0.4, "in_block": rng.random() < 0.15,
               "dom_mode": rng.choice(["empty", "other"]) if rng.random() < 0.06 else "normal",
               "other_switch_first": rng.random() < 0.12}


def check_case(case, ctx):
    spec = case.get("world") or TT
    kind = case.get("kind", "P")
    world = D.build_world(spec)
    cond = case["cond"]
    dom_mode = case.get("dom_mode", "normal")
    if dom_mode != "normal":
        # the given domain holds no instance of the type (instances exist elsewhere in the process): nothing qualifies
        world[kind] = [] if dom_mode == "empty" else list(world["Q" if kind != "Q" else "P"])
        exp = []
    else:
        exp = H.expected_rows(world, [kind], cond, [0])
    ctx.cls("domain:" + dom_mode)
    if case.get("shape"):
        ctx.cls("shape:" + case["shape"])
    if case.get("in_block"):
        ctx.cls("consumed_inside_symbolic_block")
    n_dom = len(world[kind])
    for tag in C.shape_tags(cond):
        ctx.cls("tag:" + tag)
    ctx.cls("depth:%d" % C.depth(cond))
    ctx.cls("spelling:" + case.get("form", "entity"))
    ctx.cls("spelling:" + case.get("how", "let"))
    ctx.cls("domain_kind:" + kind)
    if 0 < len(exp) < n_dom:
        ctx.nontrivial()
    times = case.get("times", 2)
    ctx.cls(f"evaluations_of_the_same_query:{times}")
    if case.get("other_switch_first"):
        ctx.cls("preceded_by_an_evaluation_under_the_other_caching_switch")
    if case.get("take_first"):
        ctx.cls("preceded_by_an_abandoned_evaluation")
        if case.get("keep_first"):
            ctx.cls("abandoned_iterator_kept_alive")
    try:
        gots = H.run_an(world, [kind], cond, [0], form=case.get("form", "entity"), how=case.get("how", "let"),
                        quant=case.get("quant", "an"), split_top_and=case.get("split", False), times=times,
                        caching=case.get("caching", True), take_first=case.get("take_first", 0),
                        consume_in_block=case.get("in_block", False), keep_first=case.get("keep_first", False),
                        first_under_other_switch=bool(case.get("other_switch_first")))
    except Exception as e:
        ctx.fail("EXC", f"{type(e).__name__}: {e}", expected=exp)
        return
    got = gots[0]
    for n, g in enumerate(gots):
        k = H.diff_kind(g, exp, ordered=True)
        if k:
            ctx.fail(k, {"evaluation_no": n + 1, "expected": exp, "observed": g, "leaf_flag_mismatches": list(M.LEAF_MISMATCHES)})
            break
    else:
        if M.LEAF_MISMATCHES:
            ctx.count("leaf.mismatch_in_correct_case")
    ctx.sample({"condition": cond, "domain_size": n_dom, "expected": [r[0] for r in exp], "observed": [r[0] for r in got]})
