"""C19  Values are not truth: falsy values are handled like any other value.

The query shapes of C01 / C02 / C11 / C13 / C16 / C17 evaluated on data whose attribute values, index results, call
results, flattened elements, field constraints and constructor arguments include 0, '', (), [], None and False.  The oracle
is unchanged: wherever such a value stands in VALUE position (operand, selected output, field constraint, constructor
argument) it compares / is selected / is passed on like any other value; only an expression in CONDITION position is
interpreted as a boolean (x.flag with flag = 0 is false, not_(x.flag) is true, x.t with () is false).
"""
from __future__ import annotations

import itertools
from collections import Counter
from dataclasses import dataclass
from typing import Any

from entity_query_language import symbol

from .. import cond as C
from .. import data as D
from .. import harness as H
from .. import multi
from . import c11, c16

ID = "C19"
LEVEL = "exploration"
RULE = ("sub-workloads on falsy data: single (C01 shapes, ordered list compare), multi (C02 shapes incl. selected attribute "
        "expressions whose value is falsy), rule (C11 heads whose arguments evaluate to 0/''/None/False or are falsy "
        "constants), predform (T(From(d), field=<falsy constant>) vs explicit form), flatten (inner lists of scalars "
        "including 0, '', None, False and empty lists), concat (all lists empty; falsy elements; membership of falsy "
        "values), expr_domain (an attribute of a variable or the flatten of its collection given as the DOMAIN of another variable, let(T, domain=expr) and T(From(expr)), alone and joined), shared (one attribute expression object used by 2-3 queries as condition, comparison/membership operand and selected output, evaluated in random order). Non-trivial: the case contains at least one falsy value in value position that belongs to a row of the "
        "expected result or decides its absence. distinct by structural hash.")
RULE += " Size cases (every tier): inner collections of 17-40 elements with every kind of falsy element at every position; equality joins on possibly-falsy attributes over 36-60 objects a side."
LEVEL_TEXT = ("Reference-model monitoring on a data class the other checks exclude: same oracles, datasets saturated with falsy "
              "values, so that a truthiness test creeping into any value path (operand, output, argument) drops or adds rows.")
LEVEL_NOTE = "Trusted: the oracle; a/b/d[k] stay ints so order comparisons remain defined; None/''/[] only appear where == and in are used."
TECHNIQUE = "runtime monitoring: differential oracle on results over falsy-saturated datasets across six query families"
ASSUMPTIONS = ["falsy values are compared with == / != / in only, order comparisons get ints (0 included)"]
FALSY = [0, "", None, False]


def plan(tier, seed):
    n = 280 if tier == "quick" else 3200
    return [{"n": n, "sub": i} for i in range(16)]


def floors(tier):
    return {"distinct_nontrivial": 500, "cls:kind:single": 600, "cls:kind:multi": 600, "cls:kind:rule": 300,
            "cls:kind:predform": 300, "cls:kind:flatten": 300, "cls:kind:concat": 200, "cls:falsy_in_result": 800,
            "cls:falsy_selected_output": 100, "cls:one_expression_object_as_value_and_condition_in_one_query": 100, "cls:falsy_constructor_argument": 150, "cls:falsy_field_constraint": 150,
            "cls:falsy_flattened_element": 150, "cls:condition_position_falsy": 80,
            "cls:kind:shared": 200, "cls:scale:inner_collections_of_17_to_40_elements": 100, "cls:scale:equality_join_on_falsy_values_over_36_to_60_objects": 60, "cls:kind:expr_domain": 200, "cls:falsy_value_in_expression_domain": 150, "cls:shared_expression_condition_and_value": 50}


def cases(spec, ctx):
    for i in range(spec["n"]):
        rng = ctx.rng(spec["sub"], i)
        kind = rng.choice(["single", "single", "multi", "multi", "rule", "predform", "flatten", "concat", "shared", "expr_domain"])
        if kind == "expr_domain":
            parents = [{"k": rng.choice([0, 1, "", None, False, 2, "x"]),
                        "items": [rng.choice([0, 1, "", "x", None, False, 2]) for _ in range(rng.randint(0, 4))]}
                       for j in range(rng.randint(1, 4))]
            yield {"kind": kind, "parents": parents, "expr": rng.choice(["attribute", "flatten", "flatten"]),
                   "how": rng.choice(["let", "from"]), "join": rng.random() < 0.5, "outer": rng.sample([0, 1, "", None, False, 2, "q"], 4),
                   "caching": rng.random() < 0.7}
            continue
        if kind == "shared":
            uses = [rng.choice(["condition", "operand_eq", "operand_in", "selected", "selected", "value_then_condition",
                                "condition_then_value", "value_or_condition", "selected_and_condition"])
                    for _ in range(rng.randint(2, 3))]
            order = list(range(len(uses))) * 2
            rng.shuffle(order)
            yield {"kind": kind, "world": D.random_world(rng, np_=(3, 6), nq=(1, 2), falsy=True),
                   "attr": rng.choice(["flag", "flag", "s", "t", "a"]), "uses": uses, "eval_order": order,
                   "lit": rng.choice([0, "", None, False, 1, "x"])}
            continue
        if kind == "single":
            k = rng.choice(["P", "P", "Q"])
            yield {"kind": kind, "world": D.random_world(rng, np_=(3, 6), nq=(3, 6), falsy=True), "kinds": [k],
                   "cond": C.gen_cond(rng, [k], rng.randint(0, 4), {"falsy": True}), "sel": [0], "caching": rng.random() < 0.7}
        elif kind == "multi":
            case = multi.gen_case(rng, nvars=(2, 3), depth=(1, 3), opts={"falsy": True}, world_kw={"falsy": True},
                                  allow_expr_sel=False)
            if rng.random() < 0.04:
                # SIZE: an equality join over 36-60 objects a side whose joined values are falsy for many of them (None, 0, '', False
                # on BOTH sides): every such pair is a row
                A_ = lambda vi, f: ["v", vi, [["a", f]]]
                f_ = rng.choice(["flag", "flag", "s"])
                case = {"world": D.random_world(rng, np_=(36, 60), nq=(1, 2), falsy=True), "kinds": ["P", "P"],
                        "cond": ["cmp", "==", A_(0, f_), A_(1, f_)], "sel": [0, 1], "big_join": True}
                if rng.random() < 0.5:
                    case["cond"] = ["and", case["cond"], ["cmp", rng.choice(["!=", "<="]), A_(0, "a"), A_(1, "b")]]
            elif rng.random() < 0.4:
                i_ = rng.randrange(len(case["kinds"]))
                path = ([["a", "p"]] if case["kinds"][i_] == "Q" else []) + \
                    rng.choice([[["a", "flag"]], [["a", "s"]], [["a", "t"]], [["a", "d"], ["i", "m"]], [["a", "d"], ["i", "m"]]])
                case["sel"] = list(case["sel"]) + [["v", i_, path]]
            case.update({"kind": kind, "caching": rng.random() < 0.7})
            yield case
        elif kind == "rule":
            case = c11.gen_case(rng)
            while case.get("subquery_head") or case.get("concat_head"):
                case = c11.gen_case(rng)
            case["world"] = D.random_world(rng, np_=(1, 4), nq=(1, 4), falsy=True)
            case["cond"] = C.gen_cond(rng, case["kinds"], rng.choice([0, 1, 2]), {"falsy": True})
            case["nested"] = False
            case["special"] = None
            mid = 1 if len(case["kinds"]) == 3 else rng.randrange(len(case["kinds"]))
            pp = [["a", "p"]] if case["kinds"][mid] == "Q" else []
            if len(case["kinds"]) < 3 and rng.random() < 0.4:
                case["f2"] = ["lit", rng.choice(FALSY)]
            else:
                case["f2"] = ["v", mid, pp + [["a", rng.choice(["flag", "s", "a"])]]]
            case["kind"] = kind
            yield case
        elif kind == "predform":
            target = rng.choice(["P", "Q"])
            names = ["a", "b", "s", "flag", "flag"] if target == "P" else ["a", "b"]
            # (flag=True / flag=False are EQUALITY constraints as well: '' or [] are not == False, 0 is)
            yield {"kind": kind, "world": D.random_world(rng, np_=(3, 6), nq=(3, 6), falsy=True),
                   "target": target, "fields": [[f, rng.choice([True, False, False] if f == "flag" else
                                                               [0, 0, 1, "", None, None] if f != "s" else ["", "x", None])]
                                                for f in dict.fromkeys(rng.sample(names, rng.randint(1, 2)))],
                   "none_at": [rng.randrange(6), rng.randrange(6)],
                   "positional": rng.random() < 0.2, "caching": True}
        elif kind == "flatten":
            parents = [{"k": j, "items": [rng.choice([0, 1, "", "x", None, False, 2]) for _ in range(rng.randint(0, 4))]}
                       for j in range(rng.randint(1, 4))]
            long_lists = rng.random() < 0.08
            if long_lists:
                # SIZE: inner collections of 17-40 elements, every kind of falsy element at every position (also at multiples of 16)
                parents = [{"k": j, "items": [rng.choice([0, 1, "", "x", None, False, 2, 3, "y"]) for _ in range(rng.randint(17, 40))]}
                           for j in range(rng.randint(1, 3))]
            elif rng.random() < 0.3:      # a non-iterable (possibly falsy) value counts as a single element
                for p_ in parents:
                    p_["items"] = rng.choice([0, 1, "", None, False, 2, "x"])
            yield {"kind": kind, "parents": parents, "sel": rng.choice(["elem", "parent_elem"]),
                   "cond": rng.choice(["none", "eq0", "ne0", "in_falsy", "parent0", "and_ne_eq", "and_ne_eq", "or_eq_eq", "not_and"]),
                   "lits": [rng.choice(["x", 1, 2, "", 0]), rng.choice(["", 0, False, None])], "caching": rng.random() < 0.7,
                   "long_lists": long_lists}
        else:
            parents = [{"k": j, "items": [] if rng.random() < 0.5 else [rng.choice([0, 1, "", None, False, 2]) for _ in range(rng.randint(0, 3))]}
                       for j in range(rng.randint(1, 4))]
            yield {"kind": kind, "parents": parents, "variant": rng.choice(["one", "one", "in", "notin"]),
                   "outer": rng.sample([0, 1, "", None, False, 2, "q"], 5), "caching": rng.random() < 0.7}


def _is_falsy(v):
    return isinstance(v, (int, str, type(None), bool, list, tuple)) and not v


# ------------------------------------------------------------------------------------------------ sub checks
def _check_single(case, ctx):
    world = D.build_world(case["world"])
    k = case["kinds"][0]
    exp = H.expected_rows(world, [k], case["cond"], [0])
    got = H.run_an(world, [k], case["cond"], [0], form="entity", caching=case["caching"])[0]
    if any(t == "truth" for t in C.shape_tags(case["cond"])):
        ctx.cls("cls:condition_position_falsy")
    if 0 < len(exp) < len(world[k]):
        ctx.nontrivial()
    if exp:
        ctx.cls("cls:falsy_in_result")
    kk = H.diff_kind(got, exp, ordered=True)
    if kk:
        ctx.fail(kk, {"expected": exp, "observed": got})
    return {"condition": case["cond"], "expected": exp, "observed": got}


def _check_multi(case, ctx):
    world = D.build_world(case["world"])
    exp = multi.expected(case, world)
    got = multi.evaluate(case, world, caching=case["caching"])[0]
    if any(not isinstance(s, int) for s in case["sel"]):
        if any(isinstance(x, tuple) and x and x[0] == "val" and x[1] in ("0", "''", "None", "False", "()", "[]") for r in exp for x in r):
            ctx.cls("cls:falsy_selected_output")
    if 0 < len(set(exp)) and len(exp) < H.count_product(world, case["kinds"]):
        ctx.nontrivial()
    if exp:
        ctx.cls("cls:falsy_in_result")
    kk = H.diff_kind(got, exp, ordered=False, multiset=multi.all_selected(case))
    if kk:
        ctx.fail(kk, {"missing": sorted(set(exp) - set(got), key=repr)[:8], "extra": sorted(set(got) - set(exp), key=repr)[:8]})
    return {"kinds": case["kinds"], "condition": case["cond"], "select": case["sel"], "expected_rows": len(exp), "observed_rows": len(got)}


def _check_rule(case, ctx):
    world = D.build_world(case["world"])
    exp = c11.expected(case, world)
    rows, problems = c11.run(case, world, case["caching"])[0]
    if any(r[1] in ("val:0", "val:''", "val:None", "val:False", "val:[]") for r in exp):
        ctx.cls("cls:falsy_constructor_argument")
        ctx.cls("cls:falsy_in_result")
        ctx.nontrivial()
    if problems:
        ctx.fail("INSTANCE", {"problems": problems[:5]})
    if Counter(rows) != Counter(exp):
        ctx.fail("INSTANCES", {"missing": list((Counter(exp) - Counter(rows)).elements())[:8],
                               "extra": list((Counter(rows) - Counter(exp)).elements())[:8]})
    return {"kinds": case["kinds"], "body": case["cond"], "f2": case["f2"], "expected": exp[:4], "observed": rows[:4]}


def _check_predform(case, ctx):
    from entity_query_language import symbolic_mode, an, entity, let, From
    world = D.build_world(case["world"])
    T = D.CLASSES[case["target"]]
    dom = world[case["target"]]
    for f, v in case["fields"]:          # make the None constraints satisfiable: some objects really hold None
        if v is None:
            for i in case.get("none_at", []):
                setattr(dom[i % len(dom)], f, None)
    m = H.labels_of(world)
    exp = [m[id(o)] for o in dom if all(getattr(o, f) == v for f, v in case["fields"])]
    if any(_is_falsy(v) for _, v in case["fields"]):
        ctx.cls("cls:falsy_field_constraint")
        if exp:
            ctx.cls("cls:falsy_in_result")
        if 0 < len(exp) < len(dom):
            ctx.nontrivial()
    kwargs = {f: v for f, v in case["fields"]}
    with symbolic_mode():
        if case["positional"] and case["fields"][0][0] == "a":
            kw = dict(kwargs)
            first = kw.pop("a")
            q1 = an(entity(T(From(dom), first, **kw)))
        else:
            q1 = an(entity(T(From(dom), **kwargs)))
        x = let(T, dom)
        q2 = an(entity(x, *[getattr(x, f) == v for f, v in case["fields"]]))
    got1 = [H.lab(m, o) for o in q1.evaluate()]
    got2 = [H.lab(m, o) for o in q2.evaluate()]
    if got1 != exp:
        ctx.fail("PREDICATE_FORM_VS_ORACLE", {"expected": exp, "predicate_form": got1, "explicit_form": got2, "fields": case["fields"]})
    elif got2 != exp:
        ctx.fail("EXPLICIT_FORM_VS_ORACLE", {"expected": exp, "predicate_form": got1, "explicit_form": got2, "fields": case["fields"]})
    return {"target": case["target"], "fields": case["fields"], "expected": exp, "predicate_form": got1}


def _check_flatten(case, ctx):
    from entity_query_language import symbolic_mode, an, entity, set_of, let, in_, and_, or_, not_
    from entity_query_language.entity import flatten
    from entity_query_language.cache_data import enable_caching, disable_caching
    ps = [c16.Par(p["k"], list(p["items"]) if isinstance(p["items"], list) else p["items"]) for p in case["parents"]]
    c = case["cond"]

    def inner(p):
        return p.items if isinstance(p.items, list) else [p.items]

    def ok(p, x):
        if c == "eq0":
            return x == 0
        if c == "ne0":
            return x != 0
        if c == "in_falsy":
            return x in (0, None, "")
        if c == "parent0":
            return p.k == 0
        l1, l2 = case.get("lits", ["x", ""])
        if c == "and_ne_eq":
            return x != l1 and x == l2
        if c == "or_eq_eq":
            return x == l1 or x == l2
        if c == "not_and":
            return not (x != l2 and x != l1)
        return True
    exp = []
    for pi, p in enumerate(ps):
        for x in inner(p):
            if ok(p, x):
                exp.append((repr(x),) if case["sel"] == "elem" else (f"Par{pi}", repr(x)))
    if any(not isinstance(p.items, list) and _is_falsy(p.items) for p in ps):
        ctx.cls("cls:falsy_scalar_flattened")
    if any(_is_falsy(x) for p in ps for x in inner(p)):
        ctx.cls("cls:falsy_flattened_element")
        if exp:
            ctx.cls("cls:falsy_in_result")
            ctx.nontrivial()
    (enable_caching if case["caching"] else disable_caching)()
    try:
        with symbolic_mode():
            p = let(c16.Par, ps)
            e = flatten(p.items)
            l1, l2 = case.get("lits", ["x", ""])
            conds = {"eq0": lambda: [e == 0], "ne0": lambda: [e != 0], "in_falsy": lambda: [in_(e, (0, None, ""))],
                     "parent0": lambda: [p.k == 0], "none": lambda: [],
                     "and_ne_eq": lambda: [and_(e != l1, e == l2)], "or_eq_eq": lambda: [or_(e == l1, e == l2)],
                     "not_and": lambda: [not_(and_(e != l2, e != l1))]}[c]()
            q = an(entity(e, *conds)) if case["sel"] == "elem" else an(set_of([p, e], *conds))
        lab = {id(pp): f"Par{i}" for i, pp in enumerate(ps)}
        got = [(repr(r),) if case["sel"] == "elem" else (lab.get(id(r[p]), "?"), repr(r[e])) for r in q.evaluate()]
    finally:
        enable_caching()
    # the same object twice in ONE inner list: between once per distinct (parent, element) and once per occurrence (see C16)
    lower = []
    for pi, p in enumerate(ps):
        seen = set()
        for x in inner(p):
            if id(x) in seen:
                continue
            seen.add(id(x))
            if ok(p, x):
                lower.append((repr(x),) if case["sel"] == "elem" else (f"Par{pi}", repr(x)))
    g = Counter(got)
    miss = list((Counter(lower) - g).elements())
    extra = list((g - Counter(exp)).elements())
    if miss or extra:
        ctx.fail("FLATTEN", {"missing": miss[:8], "extra": extra[:8], "parents": case["parents"]})
    return {"parents": case["parents"], "select": case["sel"], "condition": c, "expected": exp[:6], "observed": got[:6]}


def _check_concat(case, ctx):
    from entity_query_language import symbolic_mode, an, entity, let, in_, not_, symbol
    from entity_query_language.entity import concatenate
    ps = [c16.Par(p["k"], list(p["items"])) for p in case["parents"]]
    flat = [x for p in ps for x in p.items]
    v = case["variant"]
    outer = [c16.E(n=val) for val in case["outer"]]
    with symbolic_mode():
        p = let(c16.Par, ps)
        allv = concatenate(p.items)
        if v == "one":
            q = an(entity(allv))
        else:
            d = let(c16.E, outer)
            q = an(entity(d, in_(d.n, allv) if v == "in" else not_(in_(d.n, allv))))
    got = list(q.evaluate())
    if v == "one":
        exp = [[repr(x) for x in flat]]
        obs = [[repr(x) for x in g] if isinstance(g, (list, tuple)) else f"?{type(g).__name__}" for g in got]
    else:
        exp = [repr(o.n) for o in outer if (o.n in flat) == (v == "in")]
        obs = [repr(getattr(o, "n", o)) for o in got]
    if not flat or any(_is_falsy(x) for x in flat):
        ctx.cls("cls:falsy_in_result")
        ctx.nontrivial()
    if obs != exp:
        ctx.fail("CONCATENATE:" + v, {"expected": exp, "observed": obs, "parents": case["parents"]})
    return {"parents": case["parents"], "variant": v, "expected": exp, "observed": obs}


def _check_shared(case, ctx):
    """ONE mapped expression object used by several queries in different positions (condition / operand / selected output)"""
    from entity_query_language import symbolic_mode, an, entity, set_of, let, in_, or_
    world = D.build_world(case["world"])
    ps = world["P"]
    m = H.labels_of(world)
    attr, lit = case["attr"], case["lit"]
    with symbolic_mode():
        x = let(D.P, ps)
        val = getattr(x, attr)
        queries = []
        for u in case["uses"]:
            if u == "condition":
                queries.append(an(entity(x, val)))
            elif u == "operand_eq":
                queries.append(an(entity(x, val == lit)))
            elif u == "operand_in":
                queries.append(an(entity(x, in_(val, (0, None, "", lit)))))
            # the same object twice in ONE query (x_attr = x.attr; ... x_attr != lit, x_attr ...): value and condition position
            elif u == "value_then_condition":
                queries.append(an(entity(x, val != lit, val)))
            elif u == "condition_then_value":
                queries.append(an(entity(x, val, val != lit)))
            elif u == "value_or_condition":
                queries.append(an(entity(x, or_(val == lit, val))))
            elif u == "selected_and_condition":
                queries.append(an(set_of([x, val], val)))
            else:
                queries.append(an(set_of([x, val])))

    def expect(u):
        if u == "condition":
            return [m[id(o)] for o in ps if getattr(o, attr)]
        if u == "operand_eq":
            return [m[id(o)] for o in ps if getattr(o, attr) == lit]
        if u == "operand_in":
            return [m[id(o)] for o in ps if getattr(o, attr) in (0, None, "", lit)]
        if u in ("value_then_condition", "condition_then_value"):
            return [m[id(o)] for o in ps if getattr(o, attr) != lit and getattr(o, attr)]
        if u == "value_or_condition":
            return [m[id(o)] for o in ps if getattr(o, attr) == lit or getattr(o, attr)]
        if u == "selected_and_condition":
            return [(m[id(o)], repr(getattr(o, attr))) for o in ps if getattr(o, attr)]
        return [(m[id(o)], repr(getattr(o, attr))) for o in ps]
    if any(_is_falsy(getattr(o, attr)) for o in ps):
        ctx.cls("cls:falsy_in_result")
        if "selected" in case["uses"]:
            ctx.cls("cls:falsy_selected_output")
        if any("_" in u and "condition" in u for u in case["uses"]):
            ctx.cls("cls:one_expression_object_as_value_and_condition_in_one_query")
        if "condition" in case["uses"] and len(set(case["uses"])) > 1:
            ctx.cls("cls:shared_expression_condition_and_value")
            ctx.nontrivial()
    log = []
    for qi in case["eval_order"]:
        u = case["uses"][qi]
        rows = list(queries[qi].evaluate())
        got = [(H.lab(m, r[x]), repr(r[val])) for r in rows] if u in ("selected", "selected_and_condition") else [H.lab(m, r) for r in rows]
        log.append([qi, u, len(got)])
        if got != expect(u):
            ctx.fail("SHARED_EXPRESSION:" + u, {"attribute": attr, "uses": case["uses"], "evaluated": log, "expected": expect(u), "observed": got})
            break
    return {"attribute": attr, "uses": case["uses"], "evaluation_order": case["eval_order"], "log": log}


@symbol
@dataclass(eq=False)
class Code:
    """only the type of a variable whose domain is a value expression; never instantiated"""
    v: Any = None


@symbol
@dataclass(eq=False)
class Holder:
    v: Any = None


def _check_expr_domain(case, ctx):
    """a value expression (attribute of a variable / flatten of its collection) given as the DOMAIN of another variable:
    the variable ranges over all its values, falsy ones included; optionally joined with holders (h.v == code)"""
    from entity_query_language import symbolic_mode, an, entity, set_of, let, From
    from entity_query_language.entity import flatten
    from entity_query_language.cache_data import enable_caching, disable_caching
    ps = [c16.Par(p["k"], list(p["items"])) for p in case["parents"]]
    holders = [Holder(v) for v in case["outer"]]
    vals = [p.k for p in ps] if case["expr"] == "attribute" else [x for p in ps for x in p.items]
    key = lambda v: (type(v).__name__, repr(v))
    if case["join"]:
        exp = {(i, key(v)) for i, h in enumerate(holders) for v in vals if h.v == v}
    else:
        exp = {key(v) for v in vals}
    falsy = any(_is_falsy(v) for v in vals)
    if falsy:
        ctx.cls("cls:falsy_value_in_expression_domain")
    if exp and falsy:
        ctx.nontrivial()
    (enable_caching if case["caching"] else disable_caching)()
    try:
        with symbolic_mode():
            p = let(c16.Par, ps)
            src = p.k if case["expr"] == "attribute" else flatten(p.items)
            code = let(Code, domain=src) if case["how"] == "let" else Code(From(src))
            if case["join"]:
                h = let(Holder, holders)
                q = an(set_of([h, code], h.v == code))
            else:
                q = an(entity(code))
        for rnd in range(2):
            if case["join"]:
                hidx = {id(h_): i for i, h_ in enumerate(holders)}
                got = {(hidx[id(r[h])], key(r[code])) for r in q.evaluate()}
            else:
                got = {key(r) for r in q.evaluate()}
            if got != exp:
                ctx.fail("EXPR_DOMAIN:" + ("missing" if exp - got else "") + ("+extra" if got - exp else ""),
                         {"evaluation": rnd + 1, "missing": sorted(exp - got, key=str)[:8], "extra": sorted(got - exp, key=str)[:8]})
                break
    finally:
        enable_caching()
    return {"expected": sorted(exp, key=str)[:5]}


SUB = {"expr_domain": _check_expr_domain, "shared": _check_shared, "single": _check_single, "multi": _check_multi, "rule": _check_rule, "predform": _check_predform,
       "flatten": _check_flatten, "concat": _check_concat}


def check_case(case, ctx):
    ctx.cls("cls:kind:" + case["kind"])
    if case.get("long_lists"):
        ctx.cls("cls:scale:inner_collections_of_17_to_40_elements")
    if case.get("big_join"):
        ctx.cls("cls:scale:equality_join_on_falsy_values_over_36_to_60_objects")
    try:
        s = SUB[case["kind"]](case, ctx)
    except Exception as e:
        import traceback
        ctx.fail("EXC", f"{case['kind']}: {type(e).__name__}: {e}\n{traceback.format_exc()[-900:]}")
        return
    ctx.sample({"kind": case["kind"], **s}, limit=6)


def classify(f, ctx):
    # K05 can surface in the multi sub-workload exactly as in C02
    case = f["case"]
    if case.get("kind") != "multi" or f["kind"] != "SET:missing":
        return None
    from .. import classify as KF
    world = D.build_world(case["world"])
    exp = multi.expected(case, world)
    r = KF.attribute(f, lambda caching: multi.evaluate(case, world, caching=caching)[0], exp,
                     mentioned_not_selected=bool(multi.vars_mentioned_not_selected(case)),
                     compare=lambda got, e: multi.compare(case, got, e), nvars=len(case["kinds"]))
    return r
