"""C13  Predicate-form terms equal the explicit form and filter by type.

Three-way agreement:  T(From(d), f=v, ...)   vs   an(entity(x := let(T, d), x.f == v, ...))   vs   oracle, for every subset
of fields, keyword and positional, constants / variables / nested T'(...) terms as values; mixed-type domains (instances of
T, of decorated and undecorated subclasses, unrelated objects, ints, None) given as list, tuple, generator or single object;
variables declared via let, T(From(d)) or inside an(T(...)).
"""
from __future__ import annotations

from dataclasses import dataclass, field
from typing import Any

from entity_query_language import symbol

from .. import harness as H

ID = "C13"
LEVEL = "exploration"
RULE = ("random class-hierarchy domains (Bd, decorated subclass Hd, undecorated subclass Hd2, connection class Cn, plus "
        "unrelated objects, ints and None mixed in) given as list / tuple / generator / single object; target type any of "
        "the four; every subset of its fields constrained by keyword or positionally with constants, a variable with its "
        "own condition, or a nested predicate-form term (depth<=2); compared with the explicit let/entity form and the "
        "oracle. Non-trivial: the oracle result is neither empty nor all members of the domain that have the target "
        "type... or the domain contains members of other types that must be filtered out. distinct by structural hash.")
RULE += " Size cases (every tier): mixed-type domains of 70-130 members in same-type runs of 20-45, dozens of members satisfying the field constraints."
LEVEL_TEXT = ("Reference-model monitoring with a metamorphic twin: predicate-form query, explicit query and plain-Python "
              "filter (isinstance + field equalities) must return the same objects (identity, order, multiplicity).")
LEVEL_NOTE = "Trusted: the oracle. Falsy constants are C19's data class."
TECHNIQUE = "runtime monitoring: three-way differential (predicate form / explicit form / oracle) on results by identity and order"
ASSUMPTIONS = ["field values are truthy (C19 covers falsy ones)"]


@symbol
@dataclass(eq=False)
class Bd:
    tag: Any = field(default="t", kw_only=True)     # keyword-only and declared FIRST: positional values start at `name`
    name: Any = "a"
    size: Any = 1
    kind: Any = "k"
    label: Any = field(init=False, default=None)    # not an __init__ parameter: filled in below, still a field to constrain

    def __post_init__(self):
        self.label = f"{self.name}{self.size}"


@symbol
@dataclass(eq=False)
class Hd(Bd):
    pass


@dataclass(eq=False)
class Hd2(Hd):      # undecorated subclass of a decorated class
    pass


@symbol
@dataclass(eq=False)
class Cn:
    parent: Any = None
    child: Any = None
    w: Any = 1


class Other:
    name = "a"
    size = 1
    kind = "k"
    tag = "t"
    label = "a1"
    parent = None
    child = None
    w = 1


CLS = {"Bd": Bd, "Hd": Hd, "Hd2": Hd2, "Cn": Cn}
FIELDS = {"Bd": ["name", "size", "kind", "tag", "label"], "Hd": ["name", "size", "kind", "tag", "label"],
          "Hd2": ["name", "size", "kind", "tag", "label"],
          "Cn": ["parent", "child", "w"]}
POSITIONAL = {"Bd": 3, "Hd": 3, "Hd2": 3, "Cn": 3}      # how many leading fields may be given positionally
VALS = {"label": ["a1", "b2", "a2", "c3"], "name": ["a", "b", "c"], "size": [1, 2, 3], "kind": ["k", "m", None], "w": [1, 2], "tag": ["t", "u", "a"]}


def plan(tier, seed):
    n = 250 if tier == "quick" else 3000
    return [{"n": n, "sub": i} for i in range(16)]


def floors(tier):
    return {"distinct_nontrivial": 500, "cls:scale:mixed_domain_of_70_to_130_members": 200, "cls:target:Bd": 200, "cls:target:Hd": 200, "cls:target:Hd2": 100,
            "cls:target:Cn": 300, "cls:positional": 300, "cls:value:const": 500, "cls:value:var": 100,
            "cls:value:term": 150, "cls:container:tuple": 100, "cls:container:gen": 100, "cls:container:single": 50,
            "cls:decl:let": 100, "cls:decl:from": 500, "cls:decl:an_term": 100, "cls:type_filter_needed": 800,
            "cls:domain_without_instances_of_the_type": 150, "cls:requery_after_domain_list_changed": 100,
            "cls:two_terms_of_one_class_selected_together": 200}


def gen_case(rng):
    bodies = []
    for _ in range(rng.randint(3, 6)):
        bodies.append([rng.choice(["Bd", "Bd", "Hd", "Hd2"]), rng.choice(VALS["name"]), rng.choice(VALS["size"]), rng.choice(VALS["kind"]),
                       rng.choice(VALS["tag"])])
    big = rng.random() < 0.04
    if big:
        # SIZE: a mixed-type domain of 70-130 members in long same-type runs (40+ members of one type, then the others), so that a
        # batch-wise or bounded treatment of the supplied domain shows; dozens of members satisfy the field constraints
        bodies = []
        for t in rng.sample(["Bd", "Hd", "Hd2"], 3):
            for _ in range(rng.randint(20, 45)):
                bodies.append([t, rng.choice(VALS["name"][:2]), rng.choice(VALS["size"][:2]), rng.choice(VALS["kind"][:2]), rng.choice(VALS["tag"])])
    conns = [[rng.randrange(len(bodies)), rng.randrange(len(bodies)), rng.choice(VALS["w"])] for _ in range(rng.randint(2, 5))]
    target = rng.choice(["Bd", "Hd", "Hd2", "Cn", "Cn"])
    if big:
        target = rng.choice(["Bd", "Hd", "Hd2"])
    fields = []
    names = FIELDS[target]
    chosen = [f for f in names if rng.random() < 0.5]
    positional_prefix = 0
    if chosen and rng.random() < 0.35:
        # positional arguments must be a prefix of the field list
        k = rng.randint(1, POSITIONAL[target])
        chosen = names[:k] + [f for f in chosen if f not in names[:k]]
        positional_prefix = k
    for f in chosen:
        if f in ("parent", "child"):
            kind = rng.choice(["var", "term", "term"])
            if kind == "var":
                fields.append([f, ["var", rng.choice(["Bd", "Hd"]), rng.choice(["size", "name"]), None]])
                fields[-1][1][3] = rng.choice(VALS[fields[-1][1][2]])
            else:
                tcls = rng.choice(["Bd", "Hd"])
                sub = [[g, ["const", rng.choice(VALS[g])]] for g in FIELDS[tcls] if rng.random() < 0.45]
                fields.append([f, ["term", tcls, sub, rng.random() < 0.3]])
                if rng.random() < 0.3:
                    fields[-1][1].append("the")     # the(T'(From(d), ...)) as the field value: exactly one match, or an exception
        else:
            fields.append([f, ["const", rng.choice(VALS[f])]])
    extras = [[rng.randint(0, 6), rng.choice(["other", "int", "none", "cross"])] for _ in range(rng.randint(0, 3))]
    decl = "from"
    if not fields:
        decl = rng.choice(["let", "from", "from"])
    elif rng.random() < 0.25:
        decl = "an_term"
    return {"bodies": bodies, "conns": conns, "target": target, "fields": fields, "positional": positional_prefix, "big": big,
            "no_instance_in_domain": rng.random() < 0.08,
            "requery_after_mutation": rng.choice([None, None, None, "append", "remove", "replace"]),
            "extras": extras, "container": rng.choice(["list", "list", "tuple", "gen", "single"]), "decl": decl}


def cases(spec, ctx):
    for i in range(spec["n"]):
        yield gen_case(ctx.rng(spec["sub"], i))


def build_data(case):
    # instances that exist (and are registered) but are NOT in the supplied domain: they must never show up
    _outside = [Bd(name="a"), Hd(name="b", size=2), Hd2(name="c"), Cn(w=1)]
    bodies = [CLS[b[0]](name=b[1], size=b[2], kind=b[3], tag=b[4] if len(b) > 4 else "t") for b in case["bodies"]]
    conns = [Cn(parent=bodies[p], child=bodies[c], w=w) for p, c, w in case["conns"]]
    base = list(conns if case["target"] == "Cn" else bodies)
    dom = list(base)
    for pos, what in case["extras"]:
        x = Other() if what == "other" else 5 if what == "int" else None if what == "none" else \
            (bodies[0] if case["target"] == "Cn" else conns[0])
        dom.insert(min(pos, len(dom)), x)
    if case.get("no_instance_in_domain"):
        dom = [o for o in dom if not isinstance(o, CLS[case["target"]])]
    if case["container"] == "single":
        # a single value given as the domain: only values of the target type (a lone value of another type is not a
        # "mixed-type domain"; the library does not filter it and the statement does not ask for it)
        dom = [o for o in base if isinstance(o, CLS[case["target"]])][:1] or base[:0]
    return bodies, conns, dom


def _match_value(o, spec, bodies):
    """does the attribute value o satisfy the value spec"""
    if spec[0] == "const":
        return o == spec[1]
    if spec[0] == "var":
        return any(o is y for y in bodies if isinstance(y, CLS[spec[1]]) and getattr(y, spec[2]) == spec[3])
    tcls, sub = spec[1], spec[2]
    return any(o is y for y in bodies if isinstance(y, CLS[tcls]) and all(_match_value(getattr(y, g), v, bodies) for g, v in sub))


def the_term_outcome(case, bodies):
    """None, or 'NoSolutionFound' / 'MultipleSolutionFound' when some the(...) field value does not have exactly one match"""
    for i, (f, v) in enumerate(case["fields"]):
        if v[0] == "term" and len(v) > 4 and v[4] == "the":
            n = len([y for y in bodies if isinstance(y, CLS[v[1]]) and all(_match_value(getattr(y, g), sv, bodies) for g, sv in v[2])])
            if n != 1:
                # only the FIRST field's term is certainly asked (a later one is skipped when an earlier condition fails for
                # every member): "unspecified" then
                # (positional values are turned into conditions AFTER the keyword ones: with positional fields the order differs)
                return ("NoSolutionFound" if n == 0 else "MultipleSolutionFound") if (i == 0 and not case["positional"]) else "unspecified"
    return None


def expected(case, bodies, dom):
    T = CLS[case["target"]]
    return [o for o in dom if isinstance(o, T) and all(_match_value(getattr(o, f), v, bodies) for f, v in case["fields"])]


def _container(case, dom):
    c = case["container"]
    if c == "shared_list":
        return dom          # the caller's list object itself
    if c == "tuple":
        return tuple(dom)
    if c == "gen":
        return (o for o in dom)
    if c == "single":
        return dom[0] if dom else []
    return list(dom)


class SecondEvaluationDiffers(Exception):
    pass


def run(case, bodies, dom, form):
    from entity_query_language import symbolic_mode, an, entity, let, From
    T = CLS[case["target"]]
    with symbolic_mode():
        if form == "predicate":
            args, kwargs, extra_conds = [], {}, []
            for i, (f, v) in enumerate(case["fields"]):
                if v[0] == "const":
                    val = v[1]
                elif v[0] == "var":
                    y = let(CLS[v[1]], bodies)
                    extra_conds.append(getattr(y, v[2]) == v[3])
                    val = y
                else:
                    sub_kwargs = {g: sv[1] for g, sv in v[2]}
                    if v[3]:    # nested term given positionally as far as possible
                        names = FIELDS[v[1]][:POSITIONAL[v[1]]]
                        pos = []
                        for nme in names:
                            if nme in sub_kwargs:
                                pos.append(sub_kwargs.pop(nme))
                            else:
                                break
                        val = CLS[v[1]](From(bodies), *pos, **sub_kwargs)
                    else:
                        val = CLS[v[1]](From(bodies), **sub_kwargs)
                    if len(v) > 4 and v[4] == "the":
                        from entity_query_language import the as _the
                        val = _the(val)
                if i < case["positional"]:
                    args.append(val)
                else:
                    kwargs[f] = val
            d = _container(case, dom)
            if case["decl"] == "let":
                term = let(T, d)
            else:
                term = T(From(d), *args, **kwargs)
            if case["decl"] == "an_term" and not extra_conds:
                q = an(term)
            else:
                q = an(entity(term, *extra_conds))
            probe = None
            if not extra_conds and case["decl"] == "from" and case["container"] in ("list", "tuple") and not the_term_outcome(case, bodies):
                # a second term like the first: the(...) over it is abandoned at its second solution (MultipleSolutionFound),
                # an(...) over the SAME term afterwards still ranges over all members
                from entity_query_language import the as _the
                term2 = T(From(_container(case, dom)), *args, **kwargs)
                probe = (_the(entity(term2)), an(entity(term2)))
        else:
            probe = None
            x = let(T, _container(case, dom))
            conds = []
            for f, v in case["fields"]:
                if v[0] == "const":
                    conds.append(getattr(x, f) == v[1])
                elif v[0] == "var":
                    y = let(CLS[v[1]], bodies)
                    conds += [getattr(x, f) == y, getattr(y, v[2]) == v[3]]
                elif len(v) > 4 and v[4] == "the":
                    from entity_query_language import the as _the
                    y = let(CLS[v[1]], bodies)
                    conds.append(getattr(x, f) == _the(entity(y, *[getattr(y, g) == sv[1] for g, sv in v[2]])))
                else:
                    y = let(CLS[v[1]], bodies)
                    conds.append(getattr(x, f) == y)
                    for g, sv in v[2]:
                        conds.append(getattr(y, g) == sv[1])
            q = an(entity(x, *conds))
    if len(case["bodies"]) % 3 == 0:
        # helpers that only LOOK at a query: printing / naming / hashing it (as a debugger, a log line or a dict would)
        repr(q), str(q), q._name_, hash(q)
        if form == "predicate":
            repr(term), term._name_
    first = list(q.evaluate())
    if form == "predicate" and probe is not None and len(first) >= 2:
        from entity_query_language import MultipleSolutionFound
        try:
            probe[0].evaluate()
            raise SecondEvaluationDiffers("the(...) over a term with several solutions did not raise")
        except MultipleSolutionFound:
            pass
        after = list(probe[1].evaluate())
        if len(after) != len(first) or any(a_ is not b_ for a_, b_ in zip(first, after)):
            raise SecondEvaluationDiffers(f"an(...) over a term after the(...) over it was abandoned: {len(after)} rows, expected {len(first)}")
    if case["container"] != "gen" and (case.get("no_instance_in_domain") or len(case["bodies"]) % 2):
        # the same query object evaluated again ranges over the same members of the given domain (a generator is one-shot)
        second = list(q.evaluate())
        if len(second) != len(first) or any(a_ is not b_ for a_, b_ in zip(first, second)):
            raise SecondEvaluationDiffers(f"{form} form: first {len(first)} rows, second {len(second)} rows "
                                          f"({[type(o).__name__ for o in second][:6]})")
    return first


def run_shared(case, bodies, shared):
    """predicate form over the very list object `shared` (no copy)"""
    global _SHARED
    _SHARED = shared
    return run(case, bodies, shared, "predicate")


def check_case(case, ctx):
    bodies, conns, dom = build_data(case)
    exp = expected(case, bodies, dom)
    T = CLS[case["target"]]
    ctx.cls("cls:target:" + case["target"])
    if case.get("big"):
        ctx.cls("cls:scale:mixed_domain_of_70_to_130_members")
    ctx.cls("cls:container:" + case["container"])
    ctx.cls("cls:decl:" + case["decl"])
    if case["positional"]:
        ctx.cls("cls:positional")
    if not [o for o in dom if isinstance(o, T)]:
        ctx.cls("cls:domain_without_instances_of_the_type")
    for f, v in case["fields"]:
        ctx.cls("cls:value:" + v[0])
    typed = [o for o in dom if isinstance(o, T)]
    if len(typed) < len(dom):
        ctx.cls("cls:type_filter_needed")
    if (0 < len(exp) < len(typed)) or (exp and len(typed) < len(dom)):
        ctx.nontrivial()
    ids = {id(o): i for i, o in enumerate(dom)}

    def enc(rows):
        return [ids.get(id(o), f"?{type(o).__name__}") for o in rows]
    got = {}
    outcome = the_term_outcome(case, bodies)
    if outcome == "unspecified":
        ctx.cls("cls:the_term_unspecified_outcome_skipped")
        return
    if outcome:
        ctx.cls("cls:the_term_without_exactly_one_match")
        for form in ("predicate", "explicit"):
            try:
                rows_ = run(case, bodies, dom, form)
                if [o for o in dom if isinstance(o, T)]:     # (with nothing to range over the term is never asked)
                    ctx.fail("THE_TERM_DID_NOT_RAISE", {"form": form, "expected": outcome, "rows": len(rows_)})
                    return
            except Exception as e:
                if type(e).__name__ != outcome:
                    ctx.fail("THE_TERM_WRONG_EXCEPTION", {"form": form, "expected": outcome, "observed": f"{type(e).__name__}: {e}"[:200]})
                    return
        ctx.sample({"case": case, "the_term": outcome})
        return
    if any(v[0] == "term" and len(v) > 4 for _, v in case["fields"]):
        ctx.cls("cls:the_term_with_one_match")
    for form in ("predicate", "explicit"):
        try:
            got[form] = enc(run(case, bodies, dom, form))
        except SecondEvaluationDiffers as e:
            ctx.fail("SECOND_EVALUATION_DIFFERS", str(e))
            return
        except Exception as e:
            import traceback
            ctx.fail("EXC", f"{form} form: {type(e).__name__}: {e}\n{traceback.format_exc()[-700:]}")
            return
    e = enc(exp)
    if case.get("requery_after_mutation") and case["container"] == "list" and got["predicate"] == e and len(dom) >= 2:
        # the same list object is used as a domain again after it was changed in place: the new query ranges over its
        # current members
        ctx.cls("cls:requery_after_domain_list_changed")
        how = case["requery_after_mutation"]
        shared = list(dom)
        case2 = dict(case)
        case2["container"] = "shared_list"
        first = run_shared(case2, bodies, shared)
        new_member = T(**({"name": "a"} if T is not Cn else {"w": 1}))
        if how == "append":
            shared.append(new_member)
        elif how == "remove":
            shared.pop(0)
        else:
            shared[0] = new_member
        second = run_shared(case2, bodies, shared)
        exp2 = expected(case, bodies, shared)
        ids2 = {id(o): i for i, o in enumerate(shared)}
        if [ids2.get(id(o), "?") for o in second] != [ids2[id(o)] for o in exp2]:
            ctx.fail("REQUERY_AFTER_DOMAIN_CHANGE", {"change": how, "expected_positions": [ids2[id(o)] for o in exp2],
                                                     "observed_positions": [ids2.get(id(o), "?") for o in second],
                                                     "first_query_rows": len(first)})
    consts = {f: v[1] for f, v in case["fields"] if v[0] == "const"}
    if len(consts) >= 2 and case["container"] in ("list", "tuple") and got["predicate"] == e:
        # two predicate-form terms of the SAME class, each with its own field constraints, selected together; and one From
        # object given to two terms
        from entity_query_language import symbolic_mode, an, set_of, entity, From
        ctx.cls("cls:two_terms_of_one_class_selected_together")
        names = list(consts)
        kw1, kw2 = {names[0]: consts[names[0]]}, {n_: consts[n_] for n_ in names[1:]}
        s1 = [o for o in dom if isinstance(o, T) and all(getattr(o, f) == v for f, v in kw1.items())]
        s2 = [o for o in dom if isinstance(o, T) and all(getattr(o, f) == v for f, v in kw2.items())]
        try:
            with symbolic_mode():
                t1, t2 = T(From(list(dom)), **kw1), T(From(list(dom)), **kw2)
                q2 = an(set_of([t1, t2]))
            pairs = sorted((ids.get(id(r[t1]), "?"), ids.get(id(r[t2]), "?")) for r in q2.evaluate())
            with symbolic_mode():
                src = From(list(dom))
                u1, u2 = T(src, **kw1), T(src, **kw2)
                qa, qb = an(entity(u1)), an(entity(u2))
            ra = [ids.get(id(o), "?") for o in qa.evaluate()]
            rb = [ids.get(id(o), "?") for o in qb.evaluate()]
        except Exception as ex:
            ctx.fail("EXC", f"two terms of one class: {type(ex).__name__}: {ex}")
            return
        want_pairs = sorted((ids[id(a_)], ids[id(b_)]) for a_ in s1 for b_ in s2)
        if pairs != want_pairs:
            ctx.fail("TWO_TERMS_OF_ONE_CLASS", {"constraints": [kw1, kw2], "expected_pairs": want_pairs[:10], "observed_pairs": pairs[:10],
                                                "n_expected": len(want_pairs), "n_observed": len(pairs)})
        elif ra != enc(s1) or rb != enc(s2):
            ctx.fail("ONE_FROM_OBJECT_FOR_TWO_TERMS", {"constraints": [kw1, kw2], "expected": [enc(s1), enc(s2)], "observed": [ra, rb]})
    if got["predicate"] != e:
        ctx.fail("PREDICATE_FORM_VS_ORACLE", {"expected": e, "predicate_form": got["predicate"], "explicit_form": got["explicit"]})
    elif got["explicit"] != e:
        ctx.fail("EXPLICIT_FORM_VS_ORACLE", {"expected": e, "predicate_form": got["predicate"], "explicit_form": got["explicit"]})
    ctx.sample({"case": case, "expected_positions": e, "predicate_form": got["predicate"], "explicit_form": got["explicit"]})
