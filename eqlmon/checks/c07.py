"""C07  Evaluation is demand-driven and consumes lazily supplied domains only as needed.

The domain of a single-variable query is a logging one-shot iterator.  The pull log is read (a) after the query was
built, (b) after evaluate() was called, (c) at every delivered result over a history of partial and full evaluations.
Oracle: (a), (b): no pull; at the j-th result of a round the highest pulled index + 1 equals
max(previous high-water mark, index of the j-th qualifying element + 1) (exhaustion => the whole length, plus the single
StopIteration probe); no index is ever pulled twice; the delivered objects are the qualifying ones, in order.
"""
from __future__ import annotations

from .. import cond as C
from .. import data as D
from .. import harness as H

ID = "C07"
LEVEL = "exploration"
RULE = ("random single-variable queries (depth<=4, the whole C01 condition vocabulary, and queries without any condition) over a one-shot logging iterator of "
        "4-8 objects, declared with let(T, it), T(From(it)) or T(From(it), field=constant), possibly mixed with objects of another type (lazy type "
        "filter); histories of 2-5 rounds, each asking for a random number k of results (0..all+1) and then closing or "
        "exhausting the iterator; caching on and off. Non-trivial: some round stops before the end of the domain while "
        "at least one qualifying element is still ahead. distinct by structural hash.")
RULE += " Size cases (every tier): one-shot iterators of 60-300 elements, results asked for deep into them over several partial and full evaluations."
LEVEL_TEXT = ("Safety property over a recorded pull log (no unbounded 'eventually'): exact number of pulls at every delivered "
              "result, zero pulls before the first request, no element pulled twice across a history of evaluations.")
LEVEL_NOTE = "Trusted: the logging iterator and the oracle (which elements qualify). Held on the histories produced."
TECHNIQUE = "runtime monitoring: pull-log monitor on a one-shot domain iterator, exact per-result pull-count oracle over evaluation histories"
ASSUMPTIONS = ["single-variable queries, as the property states", "the domain iterator is not touched by anyone but the library"]


class LogIter:
    """One-shot iterator that records every pull."""

    def __init__(self, items):
        self.items = items
        self.i = 0
        self.log = []

    def __iter__(self):
        return self

    def __next__(self):
        if self.i >= len(self.items):
            self.log.append("END")
            raise StopIteration
        o = self.items[self.i]
        self.log.append(self.i)
        self.i += 1
        return o


class Other:
    a = 1
    b = 1


def plan(tier, seed):
    n = 250 if tier == "quick" else 3000
    return [{"n": n, "sub": i} for i in range(16)]


def floors(tier):
    return {"distinct_nontrivial": 300, "cls:decl:let": 300, "cls:decl:from": 300, "cls:decl:from_kw": 200, "cls:mixed_types": 200,
            "cls:round:partial": 500, "cls:round:exhausted": 300, "cls:caching_off": 200, "pull_checks": 3000,
            "cls:no_condition": 100, "cls:round:iterator_kept_alive": 300, "cls:iterator_without_any_instance_of_the_type": 100,
            "cls:second_variable:operand": 100, "cls:second_variable:lead_an": 100, "cls:second_variable:lead_forall": 100, "cls:iterator_of_60_to_300_elements": 400}


def cases(spec, ctx):
    for i in range(spec["n"]):
        rng = ctx.rng(spec["sub"], i)
        world = D.random_world(rng, np_=(4, 8), nq=(1, 2))
        long_iterator = i % 25 == 7
        if long_iterator:
            # SIZE: a one-shot iterator of 60-300 elements, results asked for deep into it (read-ahead, batching and bounded caches
            # start to matter), several partial and full evaluations
            world = D.random_world(rng, np_=(60, 300), nq=(1, 2), hi=6)
        cond = C.gen_cond(rng, ["P"], rng.choice([0, 1, 2, 2, 3, 4])) if rng.random() > 0.12 else None
        if long_iterator and rng.random() < 0.6:
            A_ = lambda f: ["v", 0, [["a", f]]]
            cond = ["and", ["cmp", rng.choice(["!=", "<", ">="]), A_("a"), ["lit", rng.randint(2, 5)]],
                    ["cmp", rng.choice(["<", "!=", "<="]), A_("b"), rng.choice([A_("a"), ["lit", rng.randint(3, 6)]])]]
        n = len(world["P"])
        mixed = sorted(rng.sample(range(n + 1), rng.randint(1, 2))) if rng.random() < 0.4 else []
        rounds = [[rng.randint(0, n + 1), rng.choice(["close", "close", "drop", "exhaust", "keep"])] for _ in range(rng.randint(2, 5))]
        decl = rng.choice(["let", "let", "from", "from", "from_kw"])
        kw = {}
        if decl == "from_kw":       # T(From(it), field=constant, ...): constant field constraints in the term itself
            kw = {f: rng.randint(1, 3) for f in rng.sample(["a", "b"], rng.randint(1, 2))}
        yield {"world": world, "cond": cond, "decl": decl, "kw": kw, "mixed": mixed, "rounds": rounds, "long_iterator": long_iterator,
               "caching": rng.random() < 0.7, "form": rng.choice(["entity", "entity", "direct"]),
               # the iterator may hold no object of the variable's type at all (such objects exist elsewhere in the process)
               "no_instance": rng.random() < 0.06,
               # a second variable (over a short list) in a nested sub-query operand, or in a condition written BEFORE the one on
               # the iterator-backed variable: the iterator is still pulled only as far as the results asked for need
               "subq": {"kind": rng.choice(["operand", "lead_an", "lead_forall"]), "vals": rng.sample([1, 2, 3, 4], rng.randint(2, 3)),
                        "k": rng.randint(0, 3)} if rng.random() < 0.2 else None}


def check_case(case, ctx):
    import gc
    from entity_query_language import symbolic_mode, an, entity, let, From
    from entity_query_language.cache_data import enable_caching, disable_caching
    world = D.build_world(case["world"])
    ps = world["P"]
    items = list(ps)
    for pos in case["mixed"]:
        items.insert(pos, Other())
    if case.get("long_iterator"):
        ctx.cls("cls:iterator_of_60_to_300_elements")
    if case.get("no_instance"):
        items = [Other() for _ in items]
        ctx.cls("cls:iterator_without_any_instance_of_the_type")
    kept = []
    cond = case["cond"]
    kw = case.get("kw") or {}
    sq = case.get("subq") if case["decl"] != "from_kw" else None
    glob = True
    if sq and sq["kind"] == "lead_an":
        glob = sq["k"] % 2 == 1      # the sub-query asks for vals[0] (exactly one solution) or for 99 (none): no hidden multiplicity
    elif sq and sq["kind"] == "lead_forall":
        glob = all(v > sq["k"] for v in sq["vals"])
    qual = [i for i, o in enumerate(items) if glob and isinstance(o, D.P) and all(getattr(o, f) == v for f, v in kw.items())
            and (cond is None or C.holds(cond, (o,))) and (not sq or sq["kind"] != "operand" or o.a in sq["vals"])]
    if sq:
        ctx.cls("cls:second_variable:" + sq["kind"])
    ctx.cls("cls:no_condition" if cond is None else "cls:with_condition")
    ctx.cls("cls:decl:" + case["decl"])
    ctx.cls("cls:caching_on" if case["caching"] else "cls:caching_off")
    if case["mixed"]:
        ctx.cls("cls:mixed_types")
    li = LogIter(items)
    ys_objects = [D.P(a=v) for v in sq["vals"]] if sq else []      # (concrete objects: built outside the symbolic block)
    (enable_caching if case["caching"] else disable_caching)()
    try:
        with symbolic_mode():
            x = let(D.P, li) if case["decl"] == "let" else D.P(From(li), **kw)
            conds = [] if cond is None else [C.build(cond, [x], 0, True)]
            if sq:
                from entity_query_language import for_all
                y = let(D.P, ys_objects)
                if sq["kind"] == "operand":
                    conds.append(x.a == an(entity(y, y.a >= 0)).a)
                elif sq["kind"] == "lead_an":
                    conds.insert(0, an(entity(y, y.a == (sq["vals"][0] if sq["k"] % 2 == 1 else 99))))
                else:
                    conds.insert(0, for_all(y, y.a > sq["k"]))
            q = an(x, *conds) if case.get("form") == "direct" and conds else an(entity(x, *conds))
        if li.log:
            ctx.fail("PULLED_WHILE_BUILDING", {"log": list(li.log)})
            return
        it = q.evaluate()
        if li.log:
            ctx.fail("PULLED_BY_EVALUATE_CALL", {"log": list(li.log)})
            return
        del it
        hi = 0
        nontrivial = False
        pos_of = {id(o): i for i, o in enumerate(items)}
        for rno, (k, how) in enumerate(case["rounds"]):
            it = q.evaluate()
            got = []
            exhausted = False
            for j in range(k):
                try:
                    o = next(it)
                except StopIteration:
                    exhausted = True
                    # "no further result" may be known without pulling the rest (a plain False among the conditions): the
                    # statement bounds what is pulled per delivered result, so anything from the old mark up to the end is fine
                    hi = max(hi, max([e for e in li.log if e != "END"], default=-1) + 1)
                    break
                got.append(pos_of.get(id(o), -1))
                pulled = [e for e in li.log if e != "END"]
                if len(pulled) != len(set(pulled)):
                    ctx.fail("ELEMENT_PULLED_TWICE", {"round": rno, "log": list(li.log)})
                    return
                need = qual[j] + 1 if j < len(qual) else len(items)
                hi = max(hi, need)
                ctx.count("pull_checks")
                if max(pulled, default=-1) + 1 != hi:
                    ctx.fail("PULL_COUNT", {"round": rno, "result_no": j + 1, "pulled_upto": max(pulled, default=-1) + 1,
                                            "expected_upto": hi, "qualifying_positions": qual, "log": list(li.log)})
                    return
                if got != qual[:len(got)]:
                    ctx.fail("WRONG_RESULT", {"round": rno, "delivered_positions": got, "qualifying_positions": qual})
                    return
            if how == "exhaust" and not exhausted:
                rest = [pos_of.get(id(o), -1) for o in it]
                exhausted = True
                hi = max(hi, max([e for e in li.log if e != "END"], default=-1) + 1)
                if got + rest != qual:
                    ctx.fail("WRONG_RESULT", {"round": rno, "delivered_positions": got + rest, "qualifying_positions": qual})
                    return
            if exhausted:
                ctx.cls("cls:round:exhausted")
                if got != qual[:len(got)] or (how != "exhaust" and len(got) != len(qual)):
                    ctx.fail("WRONG_RESULT", {"round": rno, "delivered_positions": got, "qualifying_positions": qual})
                    return
            else:
                ctx.cls("cls:round:partial")
                if hi < len(items) and any(p >= hi for p in qual):
                    nontrivial = True
            if how == "drop":
                del it
                gc.collect()
            elif how == "keep":
                kept.append(it)         # suspended and kept alive, never advanced again
                ctx.cls("cls:round:iterator_kept_alive")
            else:
                it.close()
            pulled = [e for e in li.log if e != "END"]
            if len(pulled) != len(set(pulled)):
                ctx.fail("ELEMENT_PULLED_TWICE", {"round": rno, "log": list(li.log)})
                return
            if max(pulled, default=-1) + 1 != hi:
                ctx.fail("PULL_COUNT", {"round": rno, "after": how, "pulled_upto": max(pulled, default=-1) + 1, "expected_upto": hi,
                                        "log": list(li.log)})
                return
        if nontrivial:
            ctx.nontrivial()
        ctx.sample({"condition": case["cond"], "items": len(items), "qualifying_positions": qual, "rounds": case["rounds"],
                    "pull_log": list(li.log)})
    finally:
        enable_caching()
        kept.clear()
