"""C18  Meaning-preserving rewrites of a query do not change its result set.

Metamorphic and oracle-free: for a base query and k rewritten variants - operands of and_/or_ swapped, chains re-associated
or flattened (and_(a,b,c) <-> a & (b & c) <-> several conditions passed to set_of), comparisons mirrored (a < b as b > a,
literal on either side), contains(c, i) <-> in_(i, c), variables declared in another order (changes node ids and thereby the
order of cache levels), selected in another order, every domain permuted - the row sets (multisets when every variable is
selected) must all be equal to the base variant's.
"""
from __future__ import annotations

from collections import Counter

from .. import classify as KF
from .. import cond as C
from .. import data as D
from .. import harness as H
from .. import monitors as M
from .. import multi

ID = "C18"
LEVEL = "exploration"
RULE = ("random base queries over 1-4 variables (depth<=4, full vocabulary; a fifth of them for_all queries with permuted universal and free domains, a tenth flatten queries with several conditions given in another order over a permuted parent domain; feature-interaction queries of eqlmon/ix.py with the parent domain permuted; a nested an() over a flattened element used as an operand in a conjunct before / after the conjunct on its parent; half of the plain base queries may select an attribute expression next to variables), each compared with 3 variants produced by a "
        "random composition of the listed rewrites plus permuted declaration order, selection order and domain order, and "
        "the several-arguments spelling of a top-level conjunction; caching on. Non-trivial: the base result is neither "
        "empty nor the whole product and at least one variant differs syntactically from the base. distinct by hash.")
RULE += " Size cases (every tier): scale flavours of eqlmon/multi.gen_scale_case as base queries (big joins, self-joins, 6-9 operands, IN-lists over two same-type variables, 5-6 variables) with two variants each and a second evaluation of the base."
LEVEL_TEXT = ("Metamorphic monitoring without an oracle: syntactic variants of one query are run on the real code and their "
              "row sets compared with each other, so an error shared by oracle and translation cannot hide a difference; "
              "cache/node monitors show that variants really took different paths (operand enumerated first, cache key order).")
LEVEL_NOTE = ("Trusted: the rewriter preserves meaning (it is tested against the oracle in the harness self-test). K05 is attributed "
              "with the oracle as a tie-breaker as in C02.")
TECHNIQUE = "runtime monitoring: metamorphic relation checking across syntactic variants (oracle-free), path monitors for variant diversity"
ASSUMPTIONS = ["domains hold distinct objects, so permuting a domain cannot change the row set"]


def plan(tier, seed):
    n = 180 if tier == "quick" else 2200
    return [{"n": n, "sub": i} for i in range(16)]


def floors(tier):
    return {"distinct_nontrivial": 300, "variants_compared": 5000, "cls:variant_syntactically_different": 3000,
            "cls:decl_order_permuted": 1000, "cls:sel_order_permuted": 500, "cls:split_top_and": 100,
            "cls:nvars=3": 300, "cls:nvars=4": 100, "cls:for_all_query": 200, "cls:flatten_query": 100, "cls:flatten_of_plain_numbers": 60, "cls:concatenate_query": 100, "cls:feature_interaction_query": 150,
            "cls:subquery_operand_before_its_parent_is_bound": 100, "re:cls:scale:.*": 100, "cls:selected_attribute_expression_under_a_disjunction_with_ties": 120}


def cases(spec, ctx):
    from . import c10
    for i in range(spec["n"]):
        rng = ctx.rng(spec["sub"], i)
        if rng.random() < 0.12:
            from . import c16
            base = c16.gen_case(rng)
            while base.get("plain_scalar") or (base.get("prim") and rng.random() < 0.5):
                base = c16.gen_case(rng)
            if base.get("prim"):
                # plain numbers as elements (negative ones too): or_ / and_ / stacked conditions with their operands swapped
                base["cond"] = rng.choice(["elem_or", "elem_or", "elem_and", "elem_stacked"])
            else:
                base["cond"] = rng.choice(["join3", "join3", "both", "elem_stacked", "elem_or", "elem_and"])
            base["scalar"] = False
            base["sel"] = rng.choice(["parent_elem", "elem_parent", "elem"])
            base["caching"] = True
            variants = []
            for _ in range(3):
                n = len(base["world"]["parents"])
                pr = list(range(n))
                rng.shuffle(pr)
                variants.append({"cond_order": rng.choice([[0, 1, 2], [2, 1, 0], [1, 2, 0], [2, 0, 1], [0, 2, 1]]), "perm": pr,
                                 "swap": rng.random() < 0.6})
            yield {"flatten": base, "variants": variants}
            continue
        if rng.random() < 0.1:
            # feature-interaction query (eqlmon/ix.py) with the parent domain permuted
            from .. import ix
            c_ = ix.gen_case(rng)
            c_["caching"] = True
            n_ = len(c_["world"]["parents"])
            perms = []
            for _ in range(3):
                pr = list(range(n_))
                rng.shuffle(pr)
                perms.append(pr)
            yield {"ixperm": c_, "perms": perms}
            continue
        if rng.random() < 0.06:
            # a nested an() over a flattened element used as an OPERAND, in a conjunct that comes before or after the conjunct
            # on the parent (the parent is not bound yet when the sub-query comes first); parent domain permuted
            from .. import ix
            w = ix.gen_world(rng)
            n = len(w["parents"])
            variants = []
            for _ in range(4):
                pr = list(range(n))
                rng.shuffle(pr)
                variants.append({"perm": pr, "swap": rng.random() < 0.5, "contains": rng.random() < 0.5})
            yield {"subq_operand": w, "thr": rng.randint(1, 5), "names": sorted(rng.sample(range(1, 7), rng.randint(1, 4))),
                   "k": rng.randint(1, 4), "variants": variants}
            continue
        if rng.random() < 0.06:
            # membership in the concatenated collection of a parent that an earlier conjunct binds; parent domain permuted and
            # the two conjuncts on the member swapped
            from . import c16
            w = c16.gen_world(rng)
            n = len(w["parents"])
            variants = []
            for _ in range(3):
                pr = list(range(n))
                rng.shuffle(pr)
                variants.append({"perm": pr, "swap": rng.random() < 0.5})
            yield {"concat": w, "thr": rng.randint(1, 4), "variants": variants}
            continue
        if rng.random() < 0.2:
            fc = c10.gen_case(rng)
            while fc.get("corr") or fc.get("flatprim") or fc.get("big"):       # (no condition AST to rewrite in these)
                fc = c10.gen_case(rng)
            fc["caching"] = True
            variants = []
            for _ in range(3):
                perm = []
                for k in fc["kinds"]:
                    pr = list(range(len(fc["world"][k])))
                    rng.shuffle(pr)
                    perm.append(pr)
                variants.append({"cond": C.rewrite(fc["cond"], rng), "perm": perm, "extra_first": rng.random() < 0.5,
                                 "extra": C.rewrite(fc["extra"], rng) if fc["extra"] is not None else None})
            yield {"forall": fc, "variants": variants}
            continue
        nv_hi = 4 if rng.random() < 0.3 else 3
        # (a share of the selections contain an attribute expression next to plain variables: set_of([x.a, y], ...))
        case = multi.gen_case(rng, nvars=(1, nv_hi), depth=(1, 4), allow_expr_sel=rng.random() < 0.5)
        n_variants = 3
        forced_variant = None
        if i % 30 == 17:
            # a selected ATTRIBUTE expression next to a plain variable, under a disjunction whose second alternative holds for several
            # objects that tie on the plain variable; one variant has the alternatives swapped
            A_ = lambda vi, f: ["v", vi, [["a", f]]]
            c1 = ["cmp", rng.choice(["==", ">"]), A_(0, "a"), A_(1, "a")]
            c2 = ["cmp", rng.choice(["<=", "!=", ">="]), A_(0, "b"), ["lit", rng.randint(1, 3)]]
            case = {"world": D.random_world(rng, np_=(4, 7), nq=(2, 4)), "kinds": ["P", "Q"], "cond": ["or", c1, c2],
                    "sel": [["v", 0, [["a", rng.choice(["s", "b", "a"])]]], 1]}
            forced_variant = ["or", c2, c1]
        if i % 45 == 9:
            # SIZE: big joins and self-joins, 6-9 operands, IN-lists written out over two same-type variables, 5-6 variables
            fl = ["join_big", "wide_join", "wide_or_eq", "selfjoin_big", "many_vars", "wide_or_eq", "wide_join"]
            case = multi.gen_scale_case(rng, fl[(i // 45 + spec["sub"]) % len(fl)])
            n_variants = 2
        nv = len(case["kinds"])
        variants = []
        for _ in range(n_variants):
            order = list(range(nv))
            rng.shuffle(order)
            sel = list(case["sel"])
            rng.shuffle(sel)
            perm = []
            for k in case["kinds"]:
                n = len(case["world"][k])
                pr = list(range(n))
                rng.shuffle(pr)
                perm.append(pr)
            variants.append({"cond": C.rewrite(case["cond"], rng), "order": order, "sel": sel, "perm": perm,
                             "split": rng.random() < 0.4})
        if forced_variant is not None:
            variants[0]["cond"] = forced_variant
            case["expr_sel_under_or"] = True
        case["variants"] = variants
        yield case


def _rows(case, world, v, caching=True, times=1):
    """rows as frozensets of (variable index, label) so that selection order does not matter"""
    cc = {"world": case["world"], "kinds": case["kinds"], "cond": v["cond"], "sel": v["sel"]}
    gots = multi.evaluate(cc, world, caching=caching, order=v.get("order"), perm=v.get("perm"), split_top_and=v.get("split", False),
                          times=times)
    outs = [[frozenset(zip([s_ if isinstance(s_, int) else repr(s_) for s_ in v["sel"]], r)) for r in got] for got in gots]
    return outs[0] if times == 1 else outs


def check_forall_case(case, ctx):
    from . import c10
    fc = case["forall"]
    world = D.build_world(fc["world"])
    ctx.cls("cls:for_all_query")
    try:
        base = c10.run(fc, world, True)[0]
    except Exception as e:
        ctx.fail("EXC", f"base: {type(e).__name__}: {e}")
        return
    for vi, v in enumerate(case["variants"]):
        ctx.count("variants_compared")
        vc = dict(fc)
        vc.update({"cond": v["cond"], "extra": v["extra"], "extra_first": v["extra_first"]})
        if v["cond"] != fc["cond"]:
            ctx.cls("cls:variant_syntactically_different")
        try:
            alt = c10.run(vc, world, True, perm=v["perm"])[0]
        except Exception as e:
            ctx.fail("EXC", f"variant {vi}: {type(e).__name__}: {e}", variant=vi)
            return
        if set(alt) != set(base):
            ctx.fail("FORALL_SET:" + ("missing" if set(base) - set(alt) else "") + ("+extra" if set(alt) - set(base) else ""),
                     {"variant": vi, "variant_condition": v["cond"], "domain_permutation": v["perm"],
                      "only_base": sorted(set(base) - set(alt))[:6], "only_variant": sorted(set(alt) - set(base))[:6]}, variant=vi)
            break
    if len(world[fc["kinds"][0]]) >= 2 and base:
        ctx.nontrivial()
    ctx.sample({"for_all": {k: v for k, v in fc.items() if k != "world"}, "variant0": case["variants"][0], "rows": len(base)})


def check_flatten_case(case, ctx):
    from . import c16
    import re
    base = case["flatten"]
    ctx.cls("cls:flatten_query")
    es, ps = c16.build_world(base["world"], base.get("prim", False))
    try:
        rows0 = set(c16.run(base, es, ps, True)[0])
    except Exception as e:
        ctx.fail("EXC", f"base: {type(e).__name__}: {e}")
        return
    for vi, v in enumerate(case["variants"]):
        ctx.count("variants_compared")
        vc = dict(base)
        vc["cond_order"] = v["cond_order"]
        vc["swap"] = v.get("swap", False)
        vc["world"] = {"parents": [base["world"]["parents"][j] for j in v["perm"]]}
        es2, ps2 = c16.build_world(vc["world"], vc.get("prim", False))
        try:
            rows = c16.run(vc, es2, ps2, True)[0]
        except Exception as e:
            ctx.fail("EXC", f"variant {vi}: {type(e).__name__}: {e}", variant=vi)
            return
        back = {f"Par{j}": f"Par{orig}" for j, orig in enumerate(v["perm"])}
        alt = {tuple(back.get(x, x) for x in r) for r in rows}
        if v["cond_order"] != base.get("cond_order") or v.get("swap"):
            ctx.cls("cls:variant_syntactically_different")
        if base.get("prim"):
            ctx.cls("cls:flatten_of_plain_numbers")
        if alt != rows0:
            ctx.fail("FLATTEN_SET:" + ("missing" if rows0 - alt else "") + ("+extra" if alt - rows0 else ""),
                     {"variant": vi, "condition_order": v["cond_order"], "parents_permutation": v["perm"],
                      "only_base": sorted(rows0 - alt)[:6], "only_variant": sorted(alt - rows0)[:6]}, variant=vi)
            break
    if rows0:
        ctx.nontrivial()
    ctx.sample({"flatten": {k: v for k, v in base.items()}, "variant0": case["variants"][0], "rows": len(rows0)})


def check_concat_case(case, ctx):
    from entity_query_language import symbolic_mode, an, entity, let, in_
    from entity_query_language.entity import concatenate
    from . import c16
    ctx.cls("cls:concatenate_query")

    def rows(perm, swap):
        es, ps = c16.build_world({"parents": [case["concat"]["parents"][j] for j in perm]})
        with symbolic_mode():
            p = let(c16.Par, ps)
            d = let(c16.E, es)
            conds = [d.n != case["thr"], in_(d, concatenate(p.items))]
            if swap:
                conds.reverse()
            q = an(entity(d, p.k > case["thr"] - 2, *conds))
        return {o.n for o in q.evaluate()}
    n = len(case["concat"]["parents"])
    try:
        base = rows(list(range(n)), False)
        for vi, v in enumerate(case["variants"]):
            ctx.count("variants_compared")
            if v["perm"] != list(range(n)) or v["swap"]:
                ctx.cls("cls:variant_syntactically_different")
            alt = rows(v["perm"], v["swap"])
            if alt != base:
                ctx.fail("CONCAT_SET:" + ("missing" if base - alt else "") + ("+extra" if alt - base else ""),
                         {"variant": vi, "parents_permutation": v["perm"], "conjuncts_swapped": v["swap"],
                          "only_base": sorted(base - alt), "only_variant": sorted(alt - base)}, variant=vi)
                break
    except Exception as e:
        ctx.fail("EXC", f"concat: {type(e).__name__}: {e}")
        return
    if base:
        ctx.nontrivial()
    ctx.sample({"concatenate": case["concat"], "rows": len(base)})


def check_ixperm_case(case, ctx):
    from .. import ix
    c = case["ixperm"]
    ctx.cls("cls:feature_interaction_query")
    try:
        base = set(ix.run(c, True)[0][0])
        for vi, pr in enumerate(case["perms"]):
            ctx.count("variants_compared")
            if pr != sorted(pr):
                ctx.cls("cls:variant_syntactically_different")
            back = {f"Par{j}": f"Par{orig}" for j, orig in enumerate(pr)}
            alt = {tuple(back.get(x, x) for x in r) for r in ix.run(c, True, perm=pr)[0][0]}
            if alt != base:
                ctx.fail("IX_SET:" + ("missing" if base - alt else "") + ("+extra" if alt - base else ""),
                         {"variant": vi, "parents_permutation": pr, "query": {k: c[k] for k in ("c0", "c1", "atoms", "sel")},
                          "only_base": sorted(base - alt)[:6], "only_variant": sorted(alt - base)[:6]}, variant=vi)
                break
    except Exception as e:
        ctx.fail("EXC", f"ixperm: {type(e).__name__}: {e}")
        return
    if base:
        ctx.nontrivial()
    ctx.sample({"feature_interaction": {k: c[k] for k in ("c0", "c1", "atoms", "sel")}, "rows": len(base)})


def check_subq_operand_case(case, ctx):
    """an(entity(p, and_(in_(big.n, names), p.k >= k))) with big = an(entity(e, e.n >= t)), e = flatten(p.items)"""
    from entity_query_language import symbolic_mode, an, entity, let, and_, in_, contains
    from entity_query_language.entity import flatten
    from .. import ix
    ctx.cls("cls:subquery_operand_before_its_parent_is_bound")
    names = tuple(case["names"])

    def rows(perm, swap, use_contains):
        es, ps = ix.build_world(case["subq_operand"], perm)
        with symbolic_mode():
            p = let(ix.Par, ps)
            e = flatten(p.items)
            big = an(entity(e, e.n >= case["thr"]))
            holds_big = contains(names, big.n) if use_contains else in_(big.n, names)
            roomy = p.k >= case["k"]
            q = an(entity(p, and_(roomy, holds_big) if swap else and_(holds_big, roomy)))
        idx = {id(x): i for i, x in enumerate(ps)}
        got = {idx[id(r)] for r in q.evaluate()}
        return {(perm[i] if perm else i) for i in got}

    try:
        es, ps = ix.build_world(case["subq_operand"])
        exp = {i for i, p in enumerate(ps) if p.k >= case["k"] and any(x.n >= case["thr"] and x.n in names for x in p.items)}
        base = rows(None, False, False)
        if base != exp:
            ctx.fail("SUBQ_OPERAND:oracle", {"expected": sorted(exp), "observed": sorted(base)})
            return
        for vi, v in enumerate(case["variants"]):
            ctx.count("variants_compared")
            ctx.cls("cls:variant_syntactically_different")
            alt = rows(v["perm"], v["swap"], v["contains"])
            if alt != base:
                ctx.fail("SUBQ_OPERAND_SET:" + ("missing" if base - alt else "") + ("+extra" if alt - base else ""),
                         {"variant": v, "only_base": sorted(base - alt), "only_variant": sorted(alt - base)}, variant=vi)
                return
    except Exception as e:
        import traceback
        ctx.fail("EXC", f"subq_operand: {type(e).__name__}: {e}\n{traceback.format_exc()[-500:]}")
        return
    if 0 < len(exp) < len(ps):
        ctx.nontrivial()
    ctx.sample({"subq_operand": True, "rows": len(base)})


def check_case(case, ctx):
    if "subq_operand" in case:
        return check_subq_operand_case(case, ctx)
    if "ixperm" in case:
        return check_ixperm_case(case, ctx)
    if "concat" in case:
        return check_concat_case(case, ctx)
    if "flatten" in case:
        return check_flatten_case(case, ctx)
    if "forall" in case:
        return check_forall_case(case, ctx)
    world = D.build_world(case["world"])
    nv = len(case["kinds"])
    ctx.cls(f"cls:nvars={nv}")
    if case.get("scale"):
        ctx.cls("cls:scale:" + case["scale"])
    if case.get("expr_sel_under_or"):
        ctx.cls("cls:selected_attribute_expression_under_a_disjunction_with_ties")
    base_v = {"cond": case["cond"], "sel": case["sel"], "order": None, "perm": None, "split": False}
    try:
        if case.get("scale"):
            # (big queries: the same query object is also evaluated a second time - the rows of a query written once do not change either)
            base, again = _rows(case, world, base_v, times=2)
            if set(again) != set(base):
                ctx.fail("SET:second_evaluation_of_the_base", {"only_first": [sorted(r, key=str) for r in set(base) - set(again)][:6],
                                                               "only_second": [sorted(r, key=str) for r in set(again) - set(base)][:6]})
                return
        else:
            base = _rows(case, world, base_v)
    except Exception as e:
        ctx.fail("EXC", f"base: {type(e).__name__}: {e}")
        return
    allsel = multi.all_selected(case)
    total = H.count_product(world, case["kinds"])
    different = False
    for vi, v in enumerate(case["variants"]):
        ctx.count("variants_compared")
        if v["cond"] != case["cond"]:
            ctx.cls("cls:variant_syntactically_different")
            different = True
        if v["order"] != sorted(v["order"]):
            ctx.cls("cls:decl_order_permuted")
        if v["sel"] != case["sel"]:
            ctx.cls("cls:sel_order_permuted")
        if v["split"] and v["cond"][0] in ("and", "&"):
            ctx.cls("cls:split_top_and")
        try:
            alt = _rows(case, world, v)
        except Exception as e:
            ctx.fail("EXC", f"variant {vi}: {type(e).__name__}: {e}", variant=vi)
            return
        if set(alt) != set(base):
            ctx.fail("SET:" + ("missing" if set(base) - set(alt) else "") + ("+extra" if set(alt) - set(base) else ""),
                     {"variant": vi, "variant_condition": v["cond"], "only_base": [sorted(r, key=str) for r in set(base) - set(alt)][:6],
                      "only_variant": [sorted(r, key=str) for r in set(alt) - set(base)][:6]}, variant=vi)
            break
        if allsel and Counter(alt) != Counter(base):
            ctx.fail("MULTIPLICITY", {"variant": vi, "rows_base": len(base), "rows_variant": len(alt)}, variant=vi)
            break
    if different and 0 < len(set(base)) and len(base) < total:
        ctx.nontrivial()
    ctx.sample({"kinds": case["kinds"], "base": case["cond"], "variant0": case["variants"][0], "rows": len(base)})


def classify(f, ctx):
    """A variant that disagrees with the base: decide with the oracle which side is wrong, then K05 attribution on it."""
    case = f["case"]
    if "flatten" in case or "concat" in case or "ixperm" in case or "subq_operand" in case:
        return None
    if "forall" in case:
        if f["kind"] not in ("FORALL_SET:missing", "FORALL_SET:+extra") or "variant" not in f:
            return None
        from . import c10
        fc = case["forall"]
        world = D.build_world(fc["world"])
        v = case["variants"][f["variant"]]
        vc = dict(fc)
        vc.update({"cond": v["cond"], "extra": v["extra"], "extra_first": v["extra_first"]})
        for side, perm in ((fc, None), (vc, v["perm"])):
            ff = dict(f)
            ff["kind"] = "SET:missing"
            r = KF.attribute(ff, lambda caching, side=side, perm=perm: c10.run(side, world, caching, perm=perm)[0],
                             c10.expected(side, world), mentioned_not_selected=False,
                             compare=lambda got, e: H.diff_kind(got, e, ordered=False, multiset=False), nvars=len(fc["kinds"]))
            if r == "K05":
                return "K05"
        return None
    if f["kind"] not in ("SET:missing", "SET:+extra") or "variant" not in f:
        return None
    world = D.build_world(case["world"])
    base_v = {"cond": case["cond"], "sel": case["sel"], "order": None, "perm": None, "split": False}
    v = case["variants"][f["variant"]]
    for side in (base_v, v):
        cc = {"world": case["world"], "kinds": case["kinds"], "cond": side["cond"], "sel": side["sel"]}
        exp = [frozenset(zip(side["sel"], r)) for r in multi.expected(cc, world)]
        ff = dict(f)
        ff["kind"] = "SET:missing"
        r = KF.attribute(ff, lambda caching, side=side: _rows(case, world, side, caching), exp, mentioned_not_selected=False,
                         compare=lambda got, e: H.diff_kind(got, e, ordered=False, multiset=False), nvars=len(case["kinds"]))
        if r == "K05":
            return "K05"
    # K02: subset selections
    if multi.vars_mentioned_not_selected(case):
        for side in (base_v, v):
            cc = {"world": case["world"], "kinds": case["kinds"], "cond": side["cond"], "sel": side["sel"]}
            exp = [frozenset(zip(side["sel"], r)) for r in multi.expected(cc, world)]
            ff = dict(f)
            ff["kind"] = "SET:missing"
            r = KF.attribute(ff, lambda caching, side=side: _rows(case, world, side, caching), exp, mentioned_not_selected=True,
                             compare=lambda got, e: H.diff_kind(got, e, ordered=False, multiset=False))
            if r == "K02":
                return "K02"
    return None
