"""C09  Evaluation gives the same answer inside and outside a symbolic block.

The same query (fresh copy per run) is evaluated under ambient mode none / symbolic_mode() / rule_mode(), for the
quantifiers an, the, infer, with function predicates, Predicate subclasses, HasType and inferred rule heads.  All three
outcomes must be equal, equal to the oracle, consist of real instances (never Variable / An objects), and user predicates
must have been executed concretely (call counters move by the same amount in every mode).
"""
from __future__ import annotations

import contextlib
import itertools
from dataclasses import dataclass
from typing import Any

from entity_query_language import symbol

from .. import cond as C
from .. import data as D
from .. import harness as H
from .. import multi

ID = "C09"
LEVEL = "exploration"
RULE = ("random queries whose condition contains at least one user predicate (function predicate, Predicate subclass or "
        "HasType) over 1-2 variables, depth<=3, quantifier an / the / infer (infer and a share of an/the use a rule head "
        "V(b=x, k=expr) built in rule mode), each evaluated from a fresh build under ambient none, query and rule mode and inside the query's own symbolic_mode(q) / rule_mode(q) block, also nested in another query's block; a fifth of the conditions contain a predicate that builds and evaluates a query of its own (with a Predicate subclass in it); for half of the an/infer cases the ambient mode also changes between successive results (one scheduled mode per next()); a share of the single-variable cases take their domain from a nested query that is evaluated lazily; a quarter of the cases have a comparison operand that is a nested the()/an() query of its own (sharing no variable with the rest) whose condition is a Predicate subclass calling a function predicate; further situations: evaluated inside a plain `with other_query:` block, evaluated outside after the query was opened once as an empty block of its own, a predicate that leaves a generator suspended inside its own symbolic block, an infer iterator read for one instance and closed under each ambient mode (what a later registry query sees must not depend on it). "
        "Non-trivial: the oracle outcome is not empty/none. distinct by structural hash.")
RULE += " Size cases (every tier): 270-330 objects nearly all of which qualify (about 300 results per evaluation, Predicate subclass conditions, half with a constructing rule head) under the plain ambient modes and the query's own block; a selected concatenation of 100+ elements over a query domain."
LEVEL_TEXT = ("Configuration differential on the real code (three ambient modes) plus oracle; predicate call counters "
              "show that user code really ran concretely in every mode; result objects are type-checked.")
LEVEL_NOTE = "Trusted: oracle; the predicate call counters in eqlmon/data.py."
TECHNIQUE = "runtime monitoring: configuration differential (ambient mode none/query/rule) + oracle, predicate-execution counters, result type checks"
ASSUMPTIONS = ["queries are built inside a block of their own and evaluated later under the ambient mode"]


@symbol
@dataclass(eq=False)
class V:
    b: Any = None
    k: Any = 0
    c: Any = None


MODES = ["none", "query", "rule"]
# blocks that also carry a query of their own (rule_mode(q) is how conclusions are added to q): the statement names the
# three modes; these spellings of the same modes are compared like them
MODES_WITH_QUERY = ["query_of", "rule_of", "nested_of", "plain_with_other", "again_outside_after_own_block"]
# plain_with_other: evaluated inside a plain `with other_query:` block (no symbolic_mode around it: the mode stays off, the
#   other query is the open expression); again_outside_after_own_block: the query was opened once as an (empty)
#   `with symbolic_mode(q): pass` block, then evaluated outside every block


def plan(tier, seed):
    n = 200 if tier == "quick" else 2500
    return [{"n": n, "sub": i} for i in range(16)]


def floors(tier):
    return {"distinct_nontrivial": 400, "cls:quant:an": 400, "cls:quant:the": 300, "cls:quant:infer": 300,
            "cls:head": 500, "cls:tag:fpred": 300, "cls:tag:cpred": 300, "cls:tag:hastype": 100, "predicate_calls": 5000,
            "cls:ambient_changes_between_results": 300, "cls:query_as_domain": 100, "cls:predicate_that_runs_a_query_of_its_own": 300,
            "cls:operand_is_an_independent_subquery": 300, "cls:result_iterator_closed_under_ambient_mode": 200, "cls:about_300_results_per_evaluation": 100, "cls:selected_concatenation_of_100_or_more_elements": 100}


def _has_pred(c):
    return any(t in ("fpred", "cpred", "hastype") for t in C.shape_tags(c))


def cases(spec, ctx):
    for i in range(spec["n"]):
        rng = ctx.rng(spec["sub"], i)
        nv = rng.choice([1, 1, 2])
        kinds = [rng.choice("PQ") for _ in range(nv)]
        world = D.random_world(rng, np_=(1, 4), nq=(1, 4))
        for _ in range(50):
            cond = C.gen_cond(rng, kinds, rng.randint(0, 3), {"p_leaf": 0.2})
            if _has_pred(cond):
                break
        else:
            cond = ["and", cond, ["fpred", "f_gt", [["v", 0, []], ["lit", 1]]]]
        if rng.random() < 0.2:
            # a predicate that builds and evaluates a query of its own during the evaluation
            # (half of them through a generator that is closed while it is suspended inside its own symbolic block; the predicate
            #  comes first so that the rest of the row is computed after it)
            if rng.random() < 0.5:
                cond = [rng.choice(["and", "or"]), cond, ["fpred", "f_inner", [["v", rng.randrange(nv), []], ["lit", rng.randint(0, 2)]]]]
            else:
                cond = [rng.choice(["and", "or"]), ["fpred", "f_inner_gen", [["v", rng.randrange(nv), []], ["lit", rng.randint(0, 2)]]], cond]
        quant = rng.choice(["an", "an", "the", "the", "infer", "infer"])
        big = i % 100 == 3
        if big:
            # SIZE: 270-330 objects nearly all of which qualify, so that an evaluation hands out some three hundred results (each
            # computed by a Predicate subclass, half of them constructing a rule head) while the ambient mode is on
            nv, kinds = 1, ["P"]
            world = D.random_world(rng, np_=(270, 330), nq=(1, 2), hi=5, rich=False)
            cond = ["and", ["cpred", "CGt", [["v", 0, []], ["lit", 0]]], ["cmp", rng.choice([">=", "!="]), ["v", 0, [["a", "b"]]], ["lit", rng.choice([0, 9])]]]
            quant = rng.choice(["an", "infer"])
        head = quant == "infer" or rng.random() < 0.3
        k_expr = rng.choice([["lit", 5], ["v", 0, [["a", "a"]]], ["v", nv - 1, [["a", "b"]]]])
        case = {"world": world, "kinds": kinds, "cond": cond, "quant": quant, "head": head, "k_expr": k_expr,
                "caching": rng.random() < 0.75, "big": big}
        # the ambient mode may also change WHILE the result iterator is being consumed: one mode per next() call
        if rng.random() < 0.25:
            # an operand that is a nested the(...) query of its own (no variable shared with the rest of the query) whose
            # condition is a Predicate subclass calling a function predicate
            lits = C.with_single_solution_subquery(rng, cond, D.build_world(world), flavours=("the_pred", "the_pred", "the", "an"))
            if not lits:
                vi = rng.randrange(nv)
                extra = ["cmp", rng.choice(["<=", ">=", "!="]), ["v", vi, [["a", rng.choice("ab")]]], ["lit", 2]]
                lits = C.with_single_solution_subquery(rng, extra, D.build_world(world), flavours=("the_pred",))
                case["cond"] = cond = ["and", cond, extra]
            case["subquery_operands"] = lits
        case["schedule"] = [rng.choice(MODES) for _ in range(6)] if quant != "the" and rng.random() < 0.5 else None
        # the variable's domain may itself be a query (evaluated lazily, during the outer evaluation)
        if nv == 1 and not head and rng.random() < 0.35:
            case["query_domain"] = True
            case["outer"] = ["cmp", rng.choice([">", "<=", "!="]), ["v", 0, [["a", rng.choice("ab")]]], ["lit", rng.randint(1, 3)]]
        yield case


def _ambient(mode, q=None):
    from entity_query_language import symbolic_mode
    from entity_query_language.symbolic import rule_mode
    if mode == "query":
        return symbolic_mode()
    if mode == "rule":
        return rule_mode()
    if mode == "nested_of":
        # two nested blocks that both carry a query: another query's symbolic_mode(o) around the evaluated query's rule_mode(q)
        stack = contextlib.ExitStack()
        stack.enter_context(_ambient("query_of"))
        stack.enter_context(_ambient("rule_of", q))
        return stack
    if mode == "again_outside_after_own_block":
        from entity_query_language import symbolic_mode as _sm
        with _sm(q):
            pass
        return contextlib.nullcontext()
    if mode == "plain_with_other":
        from entity_query_language import an, entity, let, symbolic_mode as _sm
        with _sm():
            o = let(D.P, [D.P(a=1)])
            other = an(entity(o, o.a > 0))
        return other
    if mode in ("query_of", "rule_of"):
        from entity_query_language import an, entity, let
        if q is not None:       # the block of the very query that is evaluated inside it
            return symbolic_mode(q) if mode == "query_of" else rule_mode(q)
        with symbolic_mode():
            o = let(D.P, [D.P(a=1)])
            other = an(entity(o, o.a > 0))
        return symbolic_mode(other) if mode == "query_of" else rule_mode(other)
    return contextlib.nullcontext()


def expected(case, world):
    m = H.labels_of(world)
    doms = H.domains(world, case["kinds"])
    rows = []
    for asg in itertools.product(*doms):
        if C.holds(case["cond"], asg) and (not case.get("query_domain") or C.holds(case["outer"], asg)):
            if case["head"]:
                rows.append(("V", m[id(asg[0])], repr(C.ev(case["k_expr"], asg)), m[id(asg[-1])]))
            else:
                rows.append(tuple(m[id(o)] for o in asg))
    return rows


def run(case, world, mode):
    from entity_query_language import symbolic_mode, an, the, infer, entity, set_of, MultipleSolutionFound, NoSolutionFound
    from entity_query_language.symbolic import rule_mode
    from entity_query_language.cache_data import enable_caching, disable_caching
    m = H.labels_of(world)
    doms = H.domains(world, case["kinds"])
    Q = {"an": an, "the": the, "infer": infer}[case["quant"]]
    C.CUR_WORLD = world
    (enable_caching if case["caching"] else disable_caching)()
    try:
        if case["head"]:
            with rule_mode():
                xs = H.declare(case["kinds"], doms)
                head = V(b=xs[0], k=C.bval(case["k_expr"], xs), c=xs[-1])
                q = Q(entity(head, C.build(case["cond"], xs, 0, False)))
        elif case.get("query_domain"):
            from entity_query_language import let
            with symbolic_mode():
                ys = H.declare(case["kinds"], doms)
                inner = an(entity(ys[0], C.build(case["cond"], ys, 0, False)))
                xs = [let(D.CLASSES[case["kinds"][0]], domain=inner)]
                q = Q(set_of(xs, C.build(case["outer"], xs, 0, False)))
        else:
            with symbolic_mode():
                xs = H.declare(case["kinds"], doms)
                q = Q(set_of(xs, C.build(case["cond"], xs, 0, False)))
        before = sum(D.PRED_CALLS.values())

        def enc(r):
            if case["head"]:
                if type(r) is not V:
                    return ("NOT_A_REAL_INSTANCE:" + type(r).__name__,)
                return ("V", H.lab(m, r.b), repr(r.k), H.lab(m, r.c))
            return tuple(H.lab(m, r[x]) for x in xs)

        sched = case.get("schedule")
        with _ambient(mode, q):
            try:
                if case["quant"] == "the":
                    out = ["value", [enc(q.evaluate())]]
                elif sched:
                    # started under `mode`, every further result is requested under the scheduled ambient mode
                    it = q.evaluate()
                    rows = []
                    i = 0
                    while True:
                        with _ambient(sched[i % len(sched)]):
                            try:
                                r = next(it)
                            except StopIteration:
                                break
                        rows.append(enc(r))
                        i += 1
                    out = ["rows", rows]
                else:
                    out = ["rows", [enc(r) for r in q.evaluate()]]
            except MultipleSolutionFound:
                out = ["multiple"]
            except NoSolutionFound:
                out = ["none"]
            except Exception as e:
                out = ["EXC", f"{type(e).__name__}: {e}"[:200]]
        return out, sum(D.PRED_CALLS.values()) - before
    finally:
        enable_caching()


def _registered_heads():
    """how many V instances a query over a variable without a domain finds (the public view of the instance registry)"""
    from entity_query_language import symbolic_mode, an, entity, let
    with symbolic_mode():
        q = an(entity(let(V)))
    return sum(1 for _ in q.evaluate())


def check_close_under_ambient(case, world, ctx):
    """an infer(...) iterator is read for ONE instance and then closed while the ambient mode is none / query / rule: what
    exists afterwards (as a later query over the registry sees it) does not depend on where the iterator was closed"""
    from entity_query_language import infer, entity
    from entity_query_language.symbolic import rule_mode
    ctx.cls("cls:result_iterator_closed_under_ambient_mode")
    deltas = {}
    doms = H.domains(world, case["kinds"])
    C.CUR_WORLD = world
    for mode in MODES:
        with rule_mode():
            xs = H.declare(case["kinds"], doms)
            q = infer(entity(V(b=xs[0], k=C.bval(case["k_expr"], xs), c=xs[-1]), C.build(case["cond"], xs, 0, False)))
        before = _registered_heads()
        it = q.evaluate()
        first = next(it, None)
        with _ambient(mode):
            it.close()
        deltas[mode] = [_registered_heads() - before, type(first).__name__]
        del first
    if len({str(v) for v in deltas.values()}) != 1:
        ctx.fail("CLOSE_UNDER_AMBIENT_MODE", {"new_instances_visible_after_closing_under": deltas})


def check_long_concatenation(case, world, ctx):
    """a selected concatenate(...) of 100+ elements whose parent variable takes its domain from a query with a Predicate subclass:
    the single row (one long list) is the same under every ambient mode"""
    from entity_query_language import symbolic_mode, an, entity, let
    from entity_query_language.entity import concatenate
    ctx.cls("cls:selected_concatenation_of_100_or_more_elements")
    ps = world["P"][:8]
    want = [v for p in ps if p.a > 0 for v in p.t20]
    outs = {}
    for mode in MODES:
        with symbolic_mode():
            y = let(D.P, ps)
            x = let(D.P, domain=an(entity(y, D.CGt(y, 0))))
            q = an(entity(concatenate(x.t20)))
        with _ambient(mode):
            rows = [list(r) if isinstance(r, (list, tuple)) else ["NOT_A_LIST:" + type(r).__name__] for r in q.evaluate()]
        outs[mode] = rows
        if rows != [want]:
            ctx.fail("LONG_CONCATENATION_UNDER_AMBIENT_MODE", {"ambient": mode, "rows": len(rows), "elements": [len(r) for r in rows][:3],
                                                                 "expected_elements": len(want),
                                                                 "first_wrong": next((repr(a_)[:40] for r in rows[:1] for a_, b_ in zip(r, want) if a_ != b_), None)})
            return


def check_case(case, ctx):
    world = D.build_world(case["world"])
    exp = expected(case, world)
    ctx.cls("cls:quant:" + case["quant"])
    if case.get("subquery_operands"):
        ctx.cls("cls:operand_is_an_independent_subquery")
    if case.get("big"):
        ctx.cls("cls:about_300_results_per_evaluation")
    if case["head"]:
        ctx.cls("cls:head")
    if case.get("schedule"):
        ctx.cls("cls:ambient_changes_between_results")
    if case.get("query_domain"):
        ctx.cls("cls:query_as_domain")
    for t in C.shape_tags(case["cond"]):
        if t in ("fpred", "cpred", "hastype"):
            ctx.cls("cls:tag:" + t)
    if "f_inner_gen" in repr(case["cond"]):
        ctx.cls("cls:predicate_that_leaves_a_generator_suspended_in_its_own_block")
    if "f_inner" in repr(case["cond"]):
        ctx.cls("cls:predicate_that_runs_a_query_of_its_own")
    if case["quant"] == "the":
        want = ["none"] if not exp else ["multiple"] if len(exp) > 1 else ["value", [exp[0]]]
    else:
        want = ["rows", exp]
    if exp:
        ctx.nontrivial()
    if case.get("big") and len(world["P"]) >= 8:
        try:
            check_long_concatenation(case, world, ctx)
        except Exception as e:
            import traceback
            ctx.fail("EXC", f"long_concatenation: {type(e).__name__}: {e}\n{traceback.format_exc()[-600:]}")
    if case["quant"] == "infer" and case["head"] and len(exp) >= 2 and not case.get("subquery_operands") and "f_inner" not in repr(case["cond"]):
        try:
            check_close_under_ambient(case, world, ctx)
        except Exception as e:
            import traceback
            ctx.fail("EXC", f"close_under_ambient: {type(e).__name__}: {e}\n{traceback.format_exc()[-600:]}")
    outs, calls = {}, {}
    modes = MODES + MODES_WITH_QUERY
    if case.get("big"):
        modes = MODES + ["query_of"]        # (three hundred results per evaluation: the plain modes and the query's own block)
    for mode in modes:
        outs[mode], calls[mode] = run(case, world, mode)
        ctx.count("predicate_calls", calls[mode])

    def norm(o):
        return [o[0], sorted(o[1])] if o[0] == "rows" else o

    for mode in modes:
        if norm(outs[mode]) != norm(want):
            ctx.fail("AMBIENT_MODE:" + mode, {"ambient": mode, "expected": want if len(str(want)) < 600 else str(want)[:600],
                                             "observed": {k: (v if len(str(v)) < 400 else str(v)[:400]) for k, v in outs.items()},
                                             "predicate_calls": calls})
            break
    else:
        if len(set(calls.values())) != 1 and case["quant"] != "the":
            ctx.fail("PREDICATE_EXECUTION_DIFFERS", {"predicate_calls_per_mode": calls})
    ctx.sample({"kinds": case["kinds"], "condition": case["cond"], "quantifier": case["quant"], "head": case["head"],
                "outcomes": {k: (v if len(str(v)) < 200 else str(v)[:200]) for k, v in outs.items()}, "predicate_calls": calls})
