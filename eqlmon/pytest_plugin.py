"""pytest plugin: run the repository's own tests with the monitors attached (DESIGN section 6, step 3).
usage: cd /repo && PYTHONPATH=/repo/src:/verif EQL_VERIF=1 /venv/bin/python -m pytest -q -p eqlmon.pytest_plugin -p no:cacheprovider"""
from collections import Counter

TOTAL = Counter()


def pytest_configure(config):
    from . import monitors
    monitors.attach()


def pytest_runtest_setup(item):
    from . import monitors
    monitors.begin_case()


def pytest_runtest_teardown(item, nextitem):
    from . import monitors
    TOTAL.update(monitors.end_case())


def pytest_terminal_summary(terminalreporter):
    keys = ["cache.check", "cache.check.hit", "cache.retrieve", "cache.retrieve.exact", "cache.retrieve.known_deviation",
            "cache.retrieve.other_deviation", "dedup.call", "unwind.close", "unwind.exc"]
    terminalreporter.write_line("eqlmon monitors during the repository's tests: " + ", ".join(f"{k}={TOTAL.get(k, 0)}" for k in keys))
    node_entered = sum(v for k, v in TOTAL.items() if k.endswith(".enter"))
    terminalreporter.write_line(f"eqlmon: node evaluations observed={node_entered}, distinct node/role keys={len([k for k in TOTAL if k.endswith('.enter')])}")
