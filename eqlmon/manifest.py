"""Writes /verif/MANIFEST.json from the metadata carried by the check modules (./check --manifest)."""
from __future__ import annotations

import json
import os

from . import VERIF_DIR
from . import runner

ALL = [f"C{i:02d}" for i in range(1, 21)]
BASELINE_OFF = ("cd /repo && env -u EQL_VERIF /venv/bin/python -m pytest -ra -q -p no:cacheprovider --timeout=900 "
                "--continue-on-collection-errors")


def main():
    have = runner.all_check_ids()
    checks = []
    for cid in have:
        mod = runner.load_check(cid)
        if getattr(mod, "NOT_CLAIMED", None):
            continue
        checks.append({
            "property_id": cid,
            "quick_cmd": f"./check {cid} --tier quick",
            "thorough_cmd": f"./check {cid} --tier thorough",
            "evidence_file": f"evidence/{cid}.json",
            "replay_cmd_template": f"./check {cid} --replay {{path}}",
            "engine": "eqlmon",
            "level_claimed": {"category": getattr(mod, "LEVEL", "exploration"), "text": mod.LEVEL_TEXT,
                              "design_ref": f"DESIGN.md section 5, {cid}"},
            "level_note": mod.LEVEL_NOTE,
            "technique": mod.TECHNIQUE,
        })
    claimed = {c["property_id"] for c in checks}
    na = []
    for cid in ALL:
        if cid not in claimed:
            reason = "check not built yet (work in progress, see DESIGN.md section 5)"
            if cid in have:
                reason = getattr(runner.load_check(cid), "NOT_CLAIMED")
            na.append({"property_id": cid, "reason": reason})
    manifest = {
        "version": 1,
        "setup_cmd": "/venv/bin/python -m compileall -q eqlmon && ./check --self-test",
        "hooks": {
            "guard": "EQL_VERIF",
            "enable": "no instrumentation is committed to the repository: the monitors (eqlmon/monitors.py) are attached "
                      "at run time from outside by the harness when EQL_VERIF=1 (set by ./check); checks import the "
                      "package from /repo/src (PYTHONPATH) so they always run the current working tree",
            "baseline_off_cmd": BASELINE_OFF,
            "source_commits": [],
            "add_only": True,
        },
        "engines": [{"name": "eqlmon", "path": "eqlmon/", "serves_properties": sorted(claimed),
                     "kind_free_text": "runtime monitoring: reference-model oracles at the API boundary, invariant "
                                       "monitors hooked on internal state, offline history checkers, driven by "
                                       "generated workloads sharded over 16 processes"}],
        "checks": checks,
        "not_applicable": na,
        "notes": "exit 0 = held on everything explored, exit 1 = VIOLATION line printed, exit 2 = inconclusive "
                 "(a deciding monitor was not reached often enough; no VIOLATION line). VERIF_SEED seeds all generators. "
                 "EQL_REPO=<dir> points the harness at another checkout (used only to try seeded changes in scratch "
                 "worktrees). Known findings: known_findings.json.",
    }
    with open(os.path.join(VERIF_DIR, "MANIFEST.json"), "w") as f:
        json.dump(manifest, f, indent=1)
    print(f"MANIFEST.json: {len(checks)} checks, {len(na)} not_applicable")


if __name__ == "__main__":
    main()
