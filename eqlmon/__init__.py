"""eqlmon - runtime monitors, reference oracles and workload generators for entity_query_language.

The package is the machinery behind /verif/check.  It never edits the repository: every monitor is attached
from outside at run time (see monitors.py) and is active only when EQL_VERIF=1.
"""
import os

VERIF_DIR = os.path.dirname(os.path.dirname(os.path.abspath(__file__)))
REPO_DIR = os.environ.get("EQL_REPO", "/repo")
GUARD = "EQL_VERIF"


def guard_on() -> bool:
    return os.environ.get(GUARD, "") == "1"
