"""Orchestration: shard a check over the cores, merge what the shards observed, decide the verdict,
write evidence and replay files.

Verdicts (DESIGN 1.5):  0 = held on what was observed, 1 = VIOLATION (line printed), 2 = INCONCLUSIVE.
"""
from __future__ import annotations

import hashlib
import importlib
import json
import os
import shutil
import subprocess
import sys
import time
from collections import Counter

from . import VERIF_DIR, REPO_DIR

NCPU = min(16, os.cpu_count() or 4)
MAX_VIOLATION_LINES = 8


def load_check(cid: str):
    return importlib.import_module(f"eqlmon.checks.{cid.lower()}")


def all_check_ids():
    d = os.path.join(VERIF_DIR, "eqlmon", "checks")
    return sorted(f[:-3].upper() for f in os.listdir(d) if f.startswith("c") and f[1:3].isdigit() and f.endswith(".py"))


def case_hash(case) -> str:
    return hashlib.blake2b(json.dumps(case, sort_keys=True, default=repr).encode(), digest_size=8).hexdigest()


def load_known(cid: str):
    path = os.path.join(VERIF_DIR, "known_findings.json")
    if not os.path.exists(path):
        return []
    with open(path) as f:
        data = json.load(f)
    return [e for e in data.get("findings", []) if e.get("property") == cid and e.get("kind") == "known"]


def _spawn(cid, spec, workdir, idx):
    spec_path = os.path.join(workdir, f"spec{idx}.json")
    out_path = os.path.join(workdir, f"out{idx}.json")
    with open(spec_path, "w") as f:
        json.dump(spec, f)
    env = dict(os.environ)
    env["PYTHONPATH"] = f"{REPO_DIR}/src:{VERIF_DIR}"
    env["PYTHONHASHSEED"] = "0"
    env["PYTHONDONTWRITEBYTECODE"] = "1"
    env["EQL_VERIF"] = "1"
    log = open(os.path.join(workdir, f"log{idx}.txt"), "w")
    p = subprocess.Popen([sys.executable, "-m", "eqlmon.shard", cid, spec_path, out_path], env=env, stdout=log,
                         stderr=subprocess.STDOUT, cwd=VERIF_DIR)
    return p, out_path, log


def run_shards(cid, specs, shard_timeout):
    """Run the shard specs, at most NCPU at a time, each under a generous wall-clock watchdog."""
    workdir = os.path.join(VERIF_DIR, ".work", f"{cid}-{os.getpid()}")
    shutil.rmtree(workdir, ignore_errors=True)
    os.makedirs(workdir)
    pending = list(enumerate(specs))
    running = {}
    results, timed_out, crashed = [], [], []
    try:
        while pending or running:
            while pending and len(running) < NCPU:
                idx, spec = pending.pop(0)
                p, out_path, log = _spawn(cid, spec, workdir, idx)
                running[idx] = (p, out_path, log, time.time())
            time.sleep(0.05)
            for idx in list(running):
                p, out_path, log, t0 = running[idx]
                rc = p.poll()
                if rc is None:
                    if time.time() - t0 > shard_timeout:
                        p.kill()
                        p.wait()
                        log.close()
                        timed_out.append(idx)
                        # a killed shard may have flushed a partial result
                        part = out_path + ".partial"
                        if os.path.exists(part):
                            try:
                                with open(part) as f:
                                    results.append(json.load(f))
                            except Exception:
                                pass
                        del running[idx]
                    continue
                log.close()
                del running[idx]
                if os.path.exists(out_path):
                    with open(out_path) as f:
                        results.append(json.load(f))
                else:
                    with open(os.path.join(workdir, f"log{idx}.txt")) as f:
                        tail = f.read()[-3000:]
                    crashed.append({"shard": idx, "rc": rc, "log_tail": tail})
    finally:
        for idx, (p, *_rest) in running.items():
            p.kill()
        if not os.environ.get("EQL_KEEP_WORK"):
            shutil.rmtree(workdir, ignore_errors=True)
    return results, timed_out, crashed


def merge(results):
    m = {"evaluations": 0, "hashes": set(), "failures": [], "counters": Counter(), "classes": Counter(),
         "samples": [], "timeouts": 0, "lines": set(), "code_under_test": None, "masked": Counter(),
         "trivial": 0, "extra": {}}
    for r in results:
        m["evaluations"] += r["evaluations"]
        m["hashes"].update(r["hashes"])
        m["failures"].extend(r["failures"])
        m["counters"].update(r["counters"])
        m["classes"].update(r["classes"])
        m["masked"].update(r.get("masked", {}))
        m["timeouts"] += r.get("timeouts", 0)
        m["lines"].update(r.get("lines", []))
        m["code_under_test"] = r.get("code_under_test") or m["code_under_test"]
        for s in r["samples"]:
            if len(m["samples"]) < 5:
                m["samples"].append(s)
        for k, v in r.get("extra", {}).items():
            if isinstance(v, (int, float)):
                m["extra"][k] = m["extra"].get(k, 0) + v
            else:
                m["extra"].setdefault(k, v)
    return m


def function_line_coverage(lines):
    """Summarise the executed lines per function of the package (statement start lines only)."""
    import ast
    by_file = {}
    for fl in lines:
        f, _, ln = fl.rpartition(":")
        by_file.setdefault(f, set()).add(int(ln))
    out = {}
    for f, executed in sorted(by_file.items()):
        path = os.path.join(REPO_DIR, "src", "entity_query_language", f)
        try:
            tree = ast.parse(open(path).read())
        except Exception:
            continue

        def visit(node, prefix):
            for ch in ast.iter_child_nodes(node):
                if isinstance(ch, ast.ClassDef):
                    visit(ch, prefix + ch.name + ".")
                elif isinstance(ch, (ast.FunctionDef, ast.AsyncFunctionDef)):
                    stmts = set()
                    for n in ast.walk(ch):
                        if isinstance(n, ast.stmt) and n is not ch and not isinstance(n, (ast.FunctionDef, ast.ClassDef)):
                            if not (isinstance(n, ast.Expr) and isinstance(getattr(n, "value", None), ast.Constant)
                                    and isinstance(n.value.value, str)):
                                stmts.add(n.lineno)
                    hit = len(stmts & executed)
                    if hit:
                        out[f"{f}:{prefix}{ch.name}"] = f"{hit}/{len(stmts)}"
                    visit(ch, prefix + ch.name + ".")
        visit(tree, "")
    return out


def run_check(cid: str, tier: str, seed: int) -> int:
    t0 = time.time()
    mod = load_check(cid)
    specs = mod.plan(tier, seed)
    for i, s in enumerate(specs):
        s.setdefault("shard", i)
        s["seed"] = seed
        s["tier"] = tier
    shard_timeout = getattr(mod, "SHARD_TIMEOUT", {"quick": 600, "thorough": 3000})[tier]
    results, timed_out, crashed = run_shards(cid, specs, shard_timeout)
    m = merge(results)

    known_entries = load_known(cid)
    known_ids = {e["id"] for e in known_entries}
    violations = [f for f in m["failures"] if not (f.get("known") in known_ids and f.get("known"))]
    known_seen = Counter(f["known"] for f in m["failures"] if f.get("known") in known_ids)

    # a crashed shard (harness died without writing a result) is a harness fault, reported loudly and inconclusive
    floors = mod.floors(tier) if hasattr(mod, "floors") else {}
    unmet = {}
    # the modules declare floors at roughly a third of what a quick run produces; they are applied with a further
    # safety factor so that seed-to-seed variation cannot turn an unchanged tree into INCONCLUSIVE (DESIGN 1.5)
    scale = {"quick": 0.25, "thorough": 1.5}[tier]
    for name, need in floors.items():
        need = int(need * scale)
        if name == "distinct_nontrivial":
            have = len(m["hashes"])
        elif name == "evaluations":
            have = m["evaluations"]
        elif name.startswith("re:"):
            import re
            rx = re.compile(name[3:])
            have = sum(v for k, v in m["counters"].items() if rx.fullmatch(k)) + \
                sum(v for k, v in m["classes"].items() if rx.fullmatch(k))
        else:
            have = m["counters"].get(name, 0) + m["classes"].get(name, 0)
        if have < need:
            unmet[name] = {"have": have, "need": need}
    inconclusive = bool(unmet) or bool(crashed) or (m["evaluations"] == 0)

    # runs against scratch checkouts (EQL_EVIDENCE_DIR set) keep their replays apart from those of /repo
    replay_root = os.environ.get("EQL_EVIDENCE_DIR") or VERIF_DIR
    os.makedirs(os.path.join(replay_root, "replays"), exist_ok=True)
    lines_out = []
    seen_replay = set()
    for f in violations:
        h = case_hash(f.get("case"))
        if h in seen_replay:
            continue
        seen_replay.add(h)
        if len(seen_replay) > MAX_VIOLATION_LINES:
            continue
        rel = os.path.join("replays", f"{cid}-{h}.json")
        if replay_root != VERIF_DIR:
            rel = os.path.join(replay_root, rel)
        with open(os.path.join(VERIF_DIR, rel), "w") as fh:
            json.dump({"property": cid, "seed": seed, "tier": tier, "case": f.get("case"),
                       "failure": {k: v for k, v in f.items() if k != "case"}}, fh, indent=1, default=repr)
        lines_out.append(f"VIOLATION property={cid} replay={rel}")
        print(f"  what: {f.get('kind')}: {str(f.get('detail'))[:400]}")
    if os.environ.get("EQL_KEEP_KNOWN"):     # investigation aid: keep the cases behind the known findings as well
        for f in m["failures"]:
            if f.get("known") in known_ids and f.get("known"):
                with open(os.path.join(replay_root, "replays", f"known-{cid}-{case_hash(f.get('case'))}.json"), "w") as fh:
                    json.dump({"property": cid, "seed": seed, "tier": tier, "case": f.get("case"),
                               "failure": {k: v for k, v in f.items() if k != "case"}}, fh, indent=1, default=repr)
    for e in known_entries:
        print(f"KNOWN-FINDING: property={cid} {e['id']} {e['what']} [observed in this run: {known_seen.get(e['id'], 0)}]")
    for ln in lines_out:
        print(ln)

    exh = mod.exhaustive_info(tier) if hasattr(mod, "exhaustive_info") else None
    coverage = {
        "evaluations": m["evaluations"],
        "distinct_nontrivial": len(m["hashes"]),
        "rule": getattr(mod, "RULE", ""),
        "samples": m["samples"],
        "classes": dict(sorted(m["classes"].items())),
        "monitor_counts": dict(sorted(m["counters"].items())),
        "function_line_coverage": function_line_coverage(m["lines"]),
        "masked_cases": dict(m["masked"]),
        "known_findings_seen": dict(known_seen),
        "code_under_test": m["code_under_test"],
        "shards": len(specs),
        "shards_timed_out": len(timed_out),
        "shards_crashed": crashed,
        "case_timeouts": m["timeouts"],
        "floors_unmet": unmet,
        "inconclusive": inconclusive,
        "exhaustive": bool(exh and exh.get("exhaustive")),
    }
    if exh:
        coverage["bound"] = exh.get("bound")
    coverage.update(m["extra"])
    evidence = {
        "property_id": cid, "tier": tier, "seed": seed, "level": getattr(mod, "LEVEL", "exploration"),
        "coverage": coverage,
        "assumptions": getattr(mod, "ASSUMPTIONS", []),
        "wall_s": round(time.time() - t0, 2),
        "violations": len(seen_replay),
    }
    ev_dir = os.environ.get("EQL_EVIDENCE_DIR") or os.path.join(VERIF_DIR, "evidence")
    os.makedirs(ev_dir, exist_ok=True)
    with open(os.path.join(ev_dir, f"{cid}.json"), "w") as fh:
        json.dump(evidence, fh, indent=1, default=repr)

    if m["failures"]:
        kinds = Counter((f.get("kind"), f.get("known")) for f in m["failures"])
        print(f"[{cid}] failures by (kind, known-finding): {dict(kinds)}")
    status = "VIOLATED" if violations else ("INCONCLUSIVE" if inconclusive else "held")
    print(f"[{cid}] {tier} seed={seed}: {status}; evaluations={m['evaluations']} distinct_nontrivial={len(m['hashes'])} "
          f"violations={len(seen_replay)} known={sum(known_seen.values())} shards={len(specs)} "
          f"timed_out={len(timed_out)} crashed={len(crashed)} case_timeouts={m['timeouts']} wall={evidence['wall_s']}s")
    if unmet:
        print(f"[{cid}] floors unmet (deciding monitor not reached often enough): {unmet}")
    for c in crashed:
        print(f"[{cid}] shard {c['shard']} crashed rc={c['rc']}:\n{c['log_tail']}")
    if violations:
        return 1
    if inconclusive:
        return 2
    return 0


def replay(cid: str, path: str) -> int:
    mod = load_check(cid)
    with open(path if os.path.isabs(path) else os.path.join(VERIF_DIR, path)) as f:
        rec = json.load(f)
    from . import shard as shard_mod, monitors, guard_on
    if guard_on():
        monitors.attach()
    ctx = shard_mod.ShardContext(mod, {"seed": rec.get("seed", 0), "tier": rec.get("tier", "quick"), "shard": 0})
    ctx.run_case(rec["case"])
    known_ids = {e["id"] for e in load_known(cid)}
    bad = [f for f in ctx.failures if not (f.get("known") in known_ids and f.get("known"))]
    for f in ctx.failures:
        print(f"  {'KNOWN ' + f['known'] if f.get('known') else 'FAIL'}: {f.get('kind')}: {str(f.get('detail'))[:600]}")
    if bad:
        print(f"VIOLATION property={cid} replay={path}")
        return 1
    print(f"[{cid}] replay {path}: no violation")
    return 0
