"""Shared helpers of the checks: declare variables, build and evaluate a query on the real code, encode results by
object identity, compute the expected result with the oracle."""
from __future__ import annotations

import itertools
from collections import Counter

from . import cond as C
from . import data as D


def labels_of(world):
    """id(obj) -> 'P0', 'Q2', ... (results are compared by identity, never by equality)"""
    m = {}
    for k, objs in world.items():
        for i, o in enumerate(objs):
            m[id(o)] = f"{k}{i}"      # by identity: equal-valued objects of kind E keep different labels
    return m


def lab(m, o):
    return m.get(id(o), f"?{type(o).__name__}")


def domains(world, kinds, perm=None):
    doms = [list(world[k]) for k in kinds]
    if perm:
        doms = [[d[j] for j in pr] if pr else d for d, pr in zip(doms, perm)]
    return doms


def expected_rows(world, kinds, cond, sel, perm=None):
    """Brute force: satisfying assignments of the Cartesian product (in product order), projected on sel."""
    m = labels_of(world)
    doms = domains(world, kinds, perm)
    out = []
    for asg in itertools.product(*doms):
        if cond is None or C.holds(cond, asg):
            out.append(tuple(m[id(asg[i])] for i in sel))
    return out


def count_product(world, kinds):
    n = 1
    for k in kinds:
        n *= len(world[k])
    return n


def declare(kinds, doms, how="let", order=None):
    """Declare one variable per kind (inside symbolic_mode).  how: 'let' | 'from' (T(From(d)))."""
    from entity_query_language import let, From
    xs = [None] * len(kinds)
    for i in (order or range(len(kinds))):
        cls = D.CLASSES[kinds[i]]
        if how == "from" or (how == "mix" and i % 2):
            xs[i] = cls(From(doms[i]))
        else:
            xs[i] = let(cls, doms[i])
        if isinstance(doms[i], (list, tuple)):
            if len(C.VAR_DOMAIN) > 200:
                C.VAR_DOMAIN.clear()
            C.VAR_DOMAIN[id(xs[i])] = list(doms[i])
    return xs


def build_query(kinds, doms, cond, sel, *, form="set_of", how="let", order=None, quant="an", register=True,
                split_top_and=False, xs=None):
    """Returns (query, xs).  form: 'entity' (single selected variable) | 'set_of'.
    split_top_and: pass the operands of a top-level conjunction as several arguments to entity()/set_of()."""
    from entity_query_language import symbolic_mode, an, a, the, entity, set_of
    with symbolic_mode():
        if xs is None:      # (given: another query over variables that were declared before, for an earlier query)
            xs = declare(kinds, doms, how, order)
        if cond is None:
            conds = []
        elif split_top_and and cond[0] in ("and", "&"):
            conds = [C.build(s, xs, 0, register) for s in cond[1:]]
        else:
            conds = [C.build(cond, xs, 0, register)]
        quantifier = {"an": an, "a": a, "the": the}[quant]
        if form == "direct":          # an(x, cond...) without an explicit entity()
            q = quantifier(xs[sel[0]], *conds)
        elif form == "direct_list":   # an([x, y], cond...) without an explicit set_of()
            q = quantifier([xs[i] for i in sel], *conds)
        elif form == "entity":
            q = quantifier(entity(xs[sel[0]], *conds))
        else:
            q = quantifier(set_of([xs[i] for i in sel], *conds))
    return q, xs


def rows_of(q, xs, sel, m, form="set_of"):
    """Evaluate an `an` query fully; rows as tuples of labels in selection order."""
    out = []
    for r in q.evaluate():
        if form in ("entity", "direct"):
            out.append((lab(m, r),))
        else:
            out.append(tuple(lab(m, r[xs[i]]) for i in sel))
    return out


def run_an(world, kinds, cond, sel, *, form="set_of", how="let", order=None, perm=None, caching=True,
           register=True, split_top_and=False, quant="an", times=1, take_first=0, consume_in_block=False, keep_first=False,
           first_under_other_switch=False):
    """Build a fresh query and evaluate it `times` times.  Returns list of row lists (one per evaluation)."""
    from entity_query_language.cache_data import enable_caching, disable_caching
    m = labels_of(world)
    doms = domains(world, kinds, perm)
    (enable_caching if caching else disable_caching)()
    try:
        q, xs = build_query(kinds, doms, cond, sel, form=form, how=how, order=order, register=register,
                            split_top_and=split_top_and, quant=quant)
        if first_under_other_switch:    # an earlier COMPLETE evaluation while the caching switch was the other way round
            (disable_caching if caching else enable_caching)()
            for _ in q.evaluate():
                pass
            (enable_caching if caching else disable_caching)()
        if take_first:      # an earlier evaluation that is abandoned after a few results
            it = q.evaluate()
            for _ in range(take_first):
                if next(it, None) is None:
                    break
            if keep_first:
                kept = it          # suspended and kept alive (never advanced again) while the evaluations below run
            else:
                it.close()
        if consume_in_block:    # the results are consumed while the consumer is (still) inside a symbolic block
            from entity_query_language import symbolic_mode
            with symbolic_mode():
                return [rows_of(q, xs, sel, m, form) for _ in range(times)]
        return [rows_of(q, xs, sel, m, form) for _ in range(times)]
    finally:
        enable_caching()


def diff_kind(got, exp, ordered=False, multiset=True):
    """Classify a difference between observed and expected rows; None if they agree at the requested strength."""
    if ordered:
        if got == exp:
            return None
    sg, se = set(got), set(exp)
    if sg != se:
        return "SET:" + ("missing" if se - sg else "") + ("+extra" if sg - se else "")
    if multiset and Counter(got) != Counter(exp):
        return "MULTIPLICITY"
    if ordered and got != exp:
        return "ORDER"
    return None
