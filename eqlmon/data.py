"""Workload model classes (@symbol) and user predicates, and world construction from a JSON-able spec.

All dataclasses are eq=False, so `==` between objects is identity both in EQL and in the reference oracle, and two
distinct objects may carry equal field values (identity vs equality matters in every comparison of results).
"""
from __future__ import annotations

from collections import Counter
from dataclasses import dataclass, field
from typing import Any, ClassVar

from entity_query_language import symbol, predicate, Predicate


@symbol
@dataclass(eq=False)
class Pt:
    """Constructed by the pt() methods WHILE a condition is computed: a @symbol constructor called by user code during
    an evaluation has to build a plain object whatever mode the consumer of the results is in."""
    x: Any = 0


@symbol
@dataclass(eq=False)
class P:
    a: Any = 1
    b: Any = 1
    s: Any = "x"
    t: Any = ()
    d: Any = field(default_factory=dict)
    flag: Any = True
    ix: int = -1        # position in the world spec, not used by queries (debugging / result encoding)

    def __post_init__(self):
        self.u = self.a       # an attribute the class does not declare (no field, no class attribute): it exists on instances only

    @property
    def fa(self):
        """`a`, read through a property that raises Boom at its j-th access when armed (fault injection for C04)"""
        _fault_tick()
        return self.a

    def big(self, k=2):
        return self.a > k

    @property
    def k1000(self):
        """a number outside the small-int cache, computed on every access: equal values are different objects"""
        return self.a * 1000 + 7

    @property
    def t20(self):
        """a collection of 22 numbers (the numbers >= a up to a+21): long enough for size thresholds"""
        return tuple(range(self.a, self.a + 22))

    @property
    def u20(self):
        """a second long collection of the same owner (the 24 numbers up to b)"""
        return tuple(range(self.b - 23, self.b + 1))

    def inc(self):
        return self.a + 1

    def pt(self):
        return Pt(self.a)

    def getb(self):
        return self.b

    def has(self, v):
        return v in self.t

    def __repr__(self):
        return f"P#{self.ix}"


@symbol
@dataclass(eq=False, repr=False)
class P2(P):
    """a subclass and (P3) a subclass of the subclass: instances of both are instances of P, also for a variable
    that ranges over the registry"""


@symbol
@dataclass(eq=False, repr=False)
class P3(P2):
    pass


@symbol
@dataclass(eq=True)
class PE:
    """Like P but with VALUE equality: two distinct instances with equal fields compare equal (identity != equality).
    `b` is payload: it takes no part in equality or in the hash, so equal records may differ in it."""
    a: Any = 1
    b: Any = field(default=1, compare=False)
    s: Any = "x"
    t: Any = ()
    d: Any = field(default_factory=dict)
    flag: Any = True
    ix: int = -1

    def __hash__(self):
        """records identified by key fields: equal objects have equal hashes (and stay DISTINCT objects for the library)"""
        return hash((self.a, self.s))

    def __post_init__(self):
        self.u = self.a       # an attribute the class does not declare (no field, no class attribute): it exists on instances only

    @property
    def fa(self):
        """`a`, read through a property that raises Boom at its j-th access when armed (fault injection for C04)"""
        _fault_tick()
        return self.a

    def big(self, k=2):
        return self.a > k

    @property
    def k1000(self):
        """a number outside the small-int cache, computed on every access: equal values are different objects"""
        return self.a * 1000 + 7

    @property
    def t20(self):
        """a collection of 22 numbers (the numbers >= a up to a+21): long enough for size thresholds"""
        return tuple(range(self.a, self.a + 22))

    @property
    def u20(self):
        """a second long collection of the same owner (the 24 numbers up to b)"""
        return tuple(range(self.b - 23, self.b + 1))

    def inc(self):
        return self.a + 1

    def pt(self):
        return Pt(self.a)

    def getb(self):
        return self.b

    def has(self, v):
        return v in self.t

    def __repr__(self):
        return f"PE#{self.ix}"


@symbol
@dataclass(eq=False)
class Q:
    a: Any = 1
    p: Any = None
    b: Any = 1
    ix: int = -1

    def __getattr__(self, name):
        """permissive: an attribute the object does not have reads as None (dunder names excepted, as usual)"""
        if name.startswith("__"):
            raise AttributeError(name)
        return None

    def __post_init__(self):
        self.u = self.a       # an attribute the class does not declare (no field, no class attribute): it exists on instances only

    @property
    def fa(self):
        """`a`, read through a property that raises Boom at its j-th access when armed (fault injection for C04)"""
        _fault_tick()
        return self.a

    def big(self, k=2):
        return self.a > k

    @property
    def k1000(self):
        """a number outside the small-int cache, computed on every access: equal values are different objects"""
        return self.a * 1000 + 7

    @property
    def t20(self):
        """a collection of 22 numbers (the numbers >= a up to a+21): long enough for size thresholds"""
        return tuple(range(self.a, self.a + 22))

    @property
    def u20(self):
        """a second long collection of the same owner (the 24 numbers up to b)"""
        return tuple(range(self.b - 23, self.b + 1))

    def inc(self):
        return self.a + 1

    def pt(self):
        return Pt(self.a)

    def __repr__(self):
        return f"Q#{self.ix}"


# ---- user predicates --------------------------------------------------------------------------------------------
class Boom(Exception):
    """Raised by the fault-injecting predicate."""


FAULT = {"calls": 0, "raise_at": None}
PRED_CALLS = Counter()


def _fault_tick():
    FAULT["calls"] += 1
    if FAULT["raise_at"] is not None and FAULT["calls"] == FAULT["raise_at"]:
        raise Boom()


@predicate
def f_gt(x, k):
    PRED_CALLS["f_gt"] += 1
    return x.a > k


@predicate
def f_lt2(x, y):
    PRED_CALLS["f_lt2"] += 1
    return x.a < y.a


@predicate
def f_gtd(x, k=1):
    """a parameter with a default: given positionally, or not at all"""
    PRED_CALLS["f_gtd"] += 1
    return x.a > k


@predicate
def f_vge(v, k):
    """takes VALUES (attribute / index / call expressions of a variable), falsy ones included, not the objects"""
    PRED_CALLS["f_vge"] += 1
    return v >= k


@predicate
def f_inner(x, k):
    """A predicate that builds and evaluates a query of its own while the enclosing query is being evaluated."""
    PRED_CALLS["f_inner"] += 1
    from entity_query_language import symbolic_mode, an, entity, let
    with symbolic_mode():
        y = let(type(x), [x])
        q = an(entity(y, CGt(y, k)))      # a Predicate subclass inside the inner query
    return any(True for _ in q.evaluate())


def _matches_of(x, k):
    """the test-suite idiom: a generator that builds a query in its own block and hands its results out from inside it"""
    from entity_query_language import symbolic_mode, an, entity, let
    with symbolic_mode():
        y = let(type(x), [x])
        q = an(entity(y, CGt(y, k)))
        yield from q.evaluate()


@predicate
def f_inner_gen(x, k):
    """Like f_inner, but the inner query lives in a generator that is left after its first result (closed while it is
    suspended inside its own symbolic block)."""
    PRED_CALLS["f_inner_gen"] += 1
    g = _matches_of(x, k)
    first = next(g, None)
    g.close()
    return first is not None


@predicate
def f_ok(x):
    """Always true; raises Boom at its j-th call when armed (fault injection for C04)."""
    FAULT["calls"] += 1
    if FAULT["raise_at"] is not None and FAULT["calls"] == FAULT["raise_at"]:
        raise Boom()
    return True


@dataclass(eq=False)
class CGt(Predicate):
    x: Any
    k: Any
    is_expensive: ClassVar[bool] = True       # the documented hint "this predicate is costly": must not change any answer

    def __call__(self):
        PRED_CALLS["CGt"] += 1
        return self.x.a > self.k


@predicate
def f_ix(o, i=0):
    """identifies ONE object of a pool (used for single-solution sub-queries)"""
    PRED_CALLS["f_ix"] += 1
    return o.ix == i


@dataclass(eq=False)
class CIx(Predicate):
    """a Predicate subclass with a defaulted field whose body calls a function predicate (concretely, whatever the
    ambient mode of the caller of evaluate() is)"""
    x: Any
    i: Any = 0

    def __call__(self):
        PRED_CALLS["CIx"] += 1
        return f_ix(self.x, self.i) is True


@dataclass(eq=False)
class CSame(Predicate):
    x: Any
    y: Any

    def __call__(self):
        PRED_CALLS["CSame"] += 1
        return self.x.a == self.y.a


FPREDS = {"f_gt": f_gt, "f_lt2": f_lt2, "f_ok": f_ok, "f_inner": f_inner, "f_inner_gen": f_inner_gen, "f_vge": f_vge, "f_gtd": f_gtd}
CPREDS = {"CGt": CGt, "CSame": CSame}
# reference (plain Python) meaning of the predicates
PRED_REF = {
    "f_gt": lambda x, k: x.a > k,
    "f_lt2": lambda x, y: x.a < y.a,
    "f_ok": lambda x: True,
    "f_inner": lambda x, k: x.a > k,
    "f_inner_gen": lambda x, k: x.a > k,
    "f_vge": lambda v, k: v >= k,
    "f_gtd": lambda x, k=1: x.a > k,
    "CGt": lambda x, k: x.a > k,
    "CSame": lambda x, y: x.a == y.a,
}
CLASSES = {"P": P, "Q": Q, "E": PE}


class FlakyCollection:
    """A re-iterable user collection whose walk ticks the fault counter once per element: when armed, the WALK OF THE DOMAIN
    (not a predicate or a property) raises Boom in the middle of an evaluation; the next walk starts from the beginning."""

    def __init__(self, items):
        self.items = list(items)

    def __iter__(self):
        for it in self.items:
            _fault_tick()
            yield it

    def __len__(self):
        return len(self.items)


def arm_fault(at):
    FAULT["calls"] = 0
    FAULT["raise_at"] = at


# ---- worlds -----------------------------------------------------------------------------------------------------
def _tup(v):
    return tuple(v) if isinstance(v, list) else v


def _num(v):
    """Partially ordered attribute values for C03: {"fs": [...]} is a frozenset, "nan" is float('nan')."""
    if isinstance(v, dict) and "fs" in v:
        return frozenset(v["fs"])
    if v == "nan":
        return float("nan")
    return v


def build_world(spec):
    """spec = {"P": [{a,b,s,t,d,flag}, ...], "Q": [{a,b,p:<index into P>}, ...]}  ->  {"P": [objs], "Q": [objs]}"""
    ps = []
    for i, f in enumerate(spec.get("P", [])):
        ps.append([P, P2, P3][f.get("cls", 0)](a=_num(f.get("a", 1)), b=_num(f.get("b", 1)), s=f.get("s", "x"), t=_tup(f.get("t", ())),
                    d=dict(f.get("d", {})), flag=f.get("flag", True), ix=i))
    qs = []
    for i, f in enumerate(spec.get("Q", [])):
        qs.append(Q(a=_num(f.get("a", 1)), p=ps[f["p"]] if f.get("p") is not None else None, b=_num(f.get("b", 1)), ix=i))
    es = []
    for i, f in enumerate(spec.get("E", [])):
        # ix is deliberately the same for all: it takes part in the generated __eq__, equal-valued objects must compare equal
        es.append(PE(a=f.get("a", 1), b=f.get("b", 1), s=f.get("s", "x"), t=_tup(f.get("t", ())),
                     d=dict(f.get("d", {})), flag=f.get("flag", True), ix=-1))
    return {"P": ps, "Q": qs, "E": es}


def add_equal_valued_objects(rng, world, n=(2, 5)):
    """kind 'E': objects with value equality, several of them equal to each other (copies of 1-2 templates)"""
    templates = [dict(rng.choice(world["P"])) for _ in range(rng.randint(1, 2))]
    world["E"] = [dict(rng.choice(templates)) for _ in range(rng.randint(*n))]
    for e in world["E"]:
        if rng.random() < 0.5:
            e["b"] = rng.randint(1, 3)        # payload: equal (and equally hashed) records that differ in it
    return world


def random_world(rng, np_=(2, 4), nq=(2, 4), lo=1, hi=3, falsy=False, rich=True):
    """Attribute values from a small alphabet so joins are neither empty nor total.  falsy=True also draws
    0, '', (), [], None, False (only C19 asks for that); a/b/d[k] stay ints (0 included) so order comparisons are defined."""
    def ival():
        return rng.randint(0, hi) if falsy else rng.randint(lo, hi)

    def sval():
        return rng.choice(["x", "xy", "y", "yz"] + (["", ""] if falsy else []))

    def tval():
        pool = [0, 1, 2, 3] if falsy else [1, 2, 3, 4]
        return rng.sample(pool, rng.randint(0 if falsy else 1, 3))

    P_ = []
    for _ in range(rng.randint(*np_)):
        o = {"a": ival(), "b": ival()}
        if rich:
            o.update({"s": sval(), "t": tval(), "d": {"k": rng.randint(0, 2) if falsy else ival(),
                                                         # a present key whose value may be None / falsy (a missing key is something else)
                                                         "m": rng.choice([None, None, 0, "", "z", 1]) if falsy else rng.choice(["z", "w", 1])},
                      "flag": rng.choice([True, False, 0, 1, "", "z", None, []]) if falsy else rng.choice([True, False])})
        P_.append(o)
    Q_ = []
    for _ in range(rng.randint(*nq)):
        Q_.append({"a": ival(), "b": ival(), "p": rng.randrange(len(P_))})
    return {"P": P_, "Q": Q_}
