"""Command line of /verif/check."""
from __future__ import annotations

import argparse
import os
import sys


def main(argv=None):
    ap = argparse.ArgumentParser(prog="check")
    ap.add_argument("check", nargs="?", help="property id, e.g. C01")
    ap.add_argument("--tier", choices=["quick", "thorough"], default=None)
    ap.add_argument("--replay", default=None)
    ap.add_argument("--self-test", action="store_true")
    ap.add_argument("--all", action="store_true")
    ap.add_argument("--list", action="store_true")
    ap.add_argument("--manifest", action="store_true")
    ap.add_argument("--monitored-tests", action="store_true", help="run the repository's own tests with the monitors attached")
    a = ap.parse_args(argv)
    from . import runner
    if a.self_test:
        from . import selftest
        return selftest.main()
    if a.monitored_tests:
        import subprocess
        from . import REPO_DIR
        return subprocess.call([sys.executable, "-m", "pytest", "-q", "-p", "eqlmon.pytest_plugin", "-p", "no:cacheprovider",
                                "--deselect", "test/test_rendering.py"], cwd=REPO_DIR)
    if a.manifest:
        from . import manifest
        manifest.main()
        return 0
    if a.list:
        print("\n".join(runner.all_check_ids()))
        return 0
    tier = a.tier or os.environ.get("VERIF_TIER") or "quick"
    if tier not in ("quick", "thorough"):
        tier = "quick"
    try:
        seed = int(os.environ.get("VERIF_SEED", "0"))
    except ValueError:
        seed = 0
    if a.all:
        rc = 0
        for cid in runner.all_check_ids():
            rc = max(rc, runner.run_check(cid, tier, seed))
        return rc
    if not a.check:
        ap.error("property id required")
    cid = a.check.upper()
    if a.replay:
        return runner.replay(cid, a.replay)
    return runner.run_check(cid, tier, seed)


def _main_guarded():
    try:
        return main()
    except SystemExit:
        raise
    except BaseException:  # a harness fault is never reported as a property verdict (0/1/2)
        import traceback
        traceback.print_exc()
        return 3


if __name__ == "__main__":
    sys.exit(_main_guarded())
