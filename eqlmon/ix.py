"""Feature-interaction queries (IX): one query that combines flatten with nested an()/the() sub-queries, concatenate,
for_all, predicates and membership tests, together with the plain-Python meaning of every building block.

Shape of every query (the order matters and is part of the shape - it keeps the meaning unambiguous):

    p = let(Par, parents);  e = flatten(p.items);  [d = let(E, elements)]
    an(set_of(selection,  <condition on p>,  <condition on e>,  <1-3 interaction atoms>))

i.e. the parent is bound first, then the flattened element, then the atoms; every atom is a documented construct whose
operands are already bound (or are free variables of their own), so its meaning is a nested loop in plain Python.
Reference meaning: rows (p, x, d) with x in p.items [, d in elements] for which all conditions hold.

Used by C02 (rows vs oracle, evaluated twice), C05 (caching on vs off), C18 (parents permuted).
"""
from __future__ import annotations

import itertools

from .cond import OPS
from .checks.c16 import E, Par, f_le

from entity_query_language import predicate as _predicate


@_predicate
def f_nd(x, k=2):
    """a predicate with a defaulted parameter, used with and without it in the same query / process"""
    return x.n > k

@_predicate
def f_clr(u, p, d):
    """relates a flattened element to the parent it came from and to a third object"""
    return u.n + d.n > p.k + 2


@_predicate
def f_member(owner, x, collection):
    """is x one of the collection (which is computed from the owner given before it)"""
    return any(x is c for c in collection)


@_predicate
def f_pair(u, d, slack=0):
    """a function predicate over two whole objects, with a defaulted third parameter"""
    return u.n + slack >= d.n


SIMPLE = ("pk", "en", "dn", "e_in_tuple", "pred_le", "d_in_conc_p", "d_in_conc_esubs", "e_obj_in", "e_eq_d", "pred_default")
WITH_D = {"forall_var_pred", "forall_flat_free_parent", "pred_conc_arg", "dn", "pred_le", "d_is_the_e", "d_in_conc_p", "d_in_conc_esubs", "d_in_conc_psubs", "forall_subs_vs_d", "e_eq_d",
          "dn_le_an_flat"}


def uses_d(a):
    if a[0] in ("or", "not"):
        return any(uses_d(s) for s in a[1:])
    return a[0] in WITH_D


def gen_world(rng):
    n_el = 6
    subs = [sorted(rng.sample([j for j in range(n_el) if j != i], rng.randint(1, 3))) for i in range(n_el)]
    parents = [{"k": rng.randint(1, 4), "items": rng.sample(range(n_el), rng.randint(0, 4))} for _ in range(rng.randint(2, 5))]
    if all(not p["items"] for p in parents):
        parents[0]["items"] = [0, 1]
    return {"subs": subs, "parents": parents}


COMPOUND = ["d_is_the_e", "e_le_sub_an", "exists_an", "d_in_conc_psubs", "forall_subs", "forall_items_an", "forall_subs_vs_d", "or", "not",
            "dn_le_an_flat", "p_has_elem", "pred_default", "forall_over_query_with_forall", "forall_flat_free_parent", "pred_conc_arg",
            "pred_conc_arg", "p_has_elem_gt_k", "forall_subs_pred", "forall_var_pred"]
ATOM_KINDS = sorted(set(SIMPLE) | set(COMPOUND))       # every kind of interaction atom (for the pairwise enumeration)


def gen_atom(rng, simple_only=False, kind=None):
    op = lambda: rng.choice(["<", "<=", ">", ">=", "!=", "=="])
    t = lambda: rng.randint(1, 6)
    kinds = list(SIMPLE) if simple_only else list(SIMPLE) + COMPOUND
    k = kind if kind is not None else rng.choice(kinds)
    if k == "pk":
        return ["pk", op(), rng.randint(0, 4)]
    if k == "en":
        return ["en", op(), t()]
    if k == "dn":
        return ["dn", op(), t()]
    if k == "e_in_tuple":
        return ["e_in_tuple", sorted(rng.sample(range(1, 7), rng.randint(1, 4)))]
    if k == "e_obj_in":
        return ["e_obj_in", sorted(rng.sample(range(6), rng.randint(1, 4)))]
    if k in ("pred_default", "forall_subs_pred"):
        return [k, rng.choice([None, None, 1, 3, 5])]
    if k == "forall_var_pred":
        return [k, sorted(rng.sample(range(6), rng.randint(1, 3))), rng.choice([None, None, 1, 2, 4])]
    if k == "p_has_elem":
        return ["p_has_elem", t()]
    if k == "forall_over_query_with_forall":
        return [k, sorted(rng.sample(range(6), rng.randint(1, 2)))]
    if k in ("e_le_sub_an", "exists_an"):
        return [k, t()]
    if k in ("forall_subs", "forall_items_an"):
        return [k, rng.choice(["<", "<=", ">", ">=", "!="]), t()]
    if k == "forall_subs_vs_d":
        return [k, rng.choice(["<=", ">=", "!="])]
    if k == "or":
        if rng.random() < 0.3:
            # one operand is a universal statement over the element's own collection (the element is already bound)
            fa = ["forall_subs", rng.choice(["<", "<=", ">", ">=", "!="]), t()]
            pair = [fa, gen_atom(rng, True)]
            rng.shuffle(pair)
            return ["or"] + pair
        return ["or", gen_atom(rng, True), gen_atom(rng, True)]
    if k == "not":
        return ["not", gen_atom(rng, True)]
    return [k]


def gen_case(rng, atoms=None):
    given = atoms is not None
    atoms = [gen_atom(rng) for _ in range(rng.randint(1, 3))] if atoms is None else list(atoms)
    fv = [a for a in atoms if a[0] == "forall_var_pred"]
    if len(fv) == 1 and not given and rng.random() < 0.7:
        # the same function predicate over the same objects with another set of arguments, in the same query
        other = ["forall_var_pred", sorted(set(fv[0][1]) | set(rng.sample(range(6), 1))), rng.choice([s_ for s_ in (None, 1, 2, 4) if s_ != fv[0][2]])]
        atoms.insert(rng.randint(0, len(atoms)), other)
    if not given and any(a[0] == "forall_subs_pred" for a in atoms) and not any(a[0] == "pred_default" for a in atoms) and rng.random() < 0.7:
        # the same function predicate also called on the element itself, with another set of arguments
        fa = next(a for a in atoms if a[0] == "forall_subs_pred")
        atoms.insert(rng.randint(0, len(atoms)), ["pred_default", rng.choice([k for k in (None, 1, 3, 5) if k != fa[1]])])
    with_d = any(uses_d(a) for a in atoms)
    sel = rng.choice([["p", "e", "d"], ["e", "d"], ["d"], ["p", "d"], ["d", "e"]] if with_d else [["p", "e"], ["e"], ["p"], ["e", "p"]])
    world = gen_world(rng)
    for a in atoms:
        if a[0] == "forall_over_query_with_forall":
            # (C10 speaks about non-empty universal domains: the named elements are taken from one parent, so at least that
            #  parent holds them all)
            items = rng.choice([p["items"] for p in world["parents"] if p["items"]])
            a[1] = sorted(rng.sample(items, min(len(items), rng.randint(1, 2))))
    return {"world": world, "c0": ["pk", rng.choice([">=", ">", "!="]), rng.randint(0, 2)],
            "c1": rng.choice([["en", ">=", 1], ["en", rng.choice([">", "<=", "!="]), rng.randint(1, 5)],
                              ["e_in_tuple", sorted(rng.sample(range(1, 7), rng.randint(2, 5)))],
                              # the element's condition written inside a sub-query over the already bound parent
                              ["en_in_subquery", rng.choice([">", "<=", "!=", ">="]), rng.randint(1, 5)],
                              # ... and without any literal: the element compared with an attribute of its parent
                              ["en_vs_pk_in_subquery", rng.choice([">", "<=", "!=", ">="])]]),
            "atoms": atoms, "sel": sel, "caching": rng.random() < 0.7,
            # the element spelled "an item of the parent": a nested description that selects the flatten and has no condition
            # ... or with a condition that holds for every element but has alternatives: or_(and_(n > t, n <= 6), n <= t)
            "e_spelling": rng.choice(["an_entity_flatten", "an_entity_flatten_or"]) if rng.random() < 0.3 else "flatten",
            "e_or_t": rng.randint(1, 5)}


def build_world(w, perm=None):
    es = [E(i + 1) for i in range(len(w["subs"]))]
    for e, idxs in zip(es, w["subs"]):
        e.subs = [es[j] for j in idxs]
    parents = w["parents"] if perm is None else [w["parents"][j] for j in perm]
    ps = [Par(p["k"], [es[j] for j in p["items"]], es[0]) for p in parents]
    return es, ps


# ---------------------------------------------------------------------------------------------------- meaning
def holds(a, p, x, d, es):
    k = a[0]
    if k == "pk":
        return OPS[a[1]](p.k, a[2])
    if k == "en_vs_pk_in_subquery":
        return OPS[a[1]](x.n, p.k)
    if k in ("en", "en_in_subquery"):
        return OPS[a[1]](x.n, a[2])
    if k == "dn":
        return OPS[a[1]](d.n, a[2])
    if k == "e_in_tuple":
        return x.n in tuple(a[1])
    if k == "pred_le":
        return x.n <= d.n
    if k == "e_obj_in":
        return any(x is es[j] for j in a[1])            # in_(e, (objects...)): the flattened element itself is the operand
    if k == "e_eq_d":
        return x is d                                   # e == d
    if k == "pred_default":
        return x.n > (2 if a[1] is None else a[1])      # f_nd(e) uses the default k=2, f_nd(e, k) the given one
    if k == "dn_le_an_flat":
        return any(d.n <= x2.n for x2 in p.items)       # d.n <= an(entity(flatten(p.items))).n : some element of the bound parent
    if k == "p_has_elem_gt_k":
        return any(x2.n > p.k for x2 in p.items)        # an(entity(p, flatten(p.items).n > p.k)): no literal, flatten not selected
    if k == "p_has_elem":
        return any(x2.n > a[1] for x2 in p.items)       # an(entity(p, flatten(p.items).n > t)) as a condition
    if k == "d_is_the_e":
        return d is x                               # d == the(entity(y, y.n == e.n)): element numbers are unique
    if k == "e_le_sub_an":
        return any(y.n > a[1] and x.n <= y.n for y in es)
    if k == "exists_an":
        return any(x.n < y.n <= a[1] for y in es)
    if k == "d_in_conc_p":
        return any(d is y for y in p.items)
    if k == "d_in_conc_esubs":
        return any(d is y for y in x.subs)
    if k == "d_in_conc_psubs":
        return any(d is y for it in p.items for y in it.subs)
    if k == "forall_var_pred":
        # for_all(u2, f_pair(u2, d[, slack])) with u2 a plain variable over the named elements: all arguments of the function
        # predicate are whole objects
        return all(es[j].n + (0 if a[2] is None else a[2]) >= d.n for j in a[1])
    if k == "forall_subs_pred":
        # for_all(u, f_nd(u[, k])): the condition is a function predicate with a defaulted parameter; other atoms of the same
        # query (and earlier queries of the process) call it on the same objects with another set of arguments
        return all(u.n > (2 if a[1] is None else a[1]) for u in x.subs)
    if k == "forall_subs":
        return all(OPS[a[1]](u.n, a[2]) for u in x.subs)
    if k == "forall_items_an":
        return all(OPS[a[1]](b.n, a[2]) for b in p.items)
    if k == "forall_subs_vs_d":
        return all(OPS[a[1]](u.n, d.n) for u in x.subs)
    if k == "pred_conc_arg":
        # f_member(d, e, concatenate(d.subs)): the concatenation is an ARGUMENT of a predicate term, collected over the variable
        # that an earlier argument of the same term binds (arguments are bound left to right)
        return any(x is y for y in d.subs)
    if k == "forall_flat_free_parent":
        # for_all(u, f_clr(u, p2, d)) with u = flatten(p2.items), p2 a variable of its own that nothing binds: the universal
        # rows are ALL (parent, element) pairs, an element that sits in two parents is checked against both
        return all(y.n + d.n > p2.k + 2 for p2 in CUR_PS for y in p2.items)
    if k == "forall_over_query_with_forall":
        # for_all(sub, in_(e, sub.items)) with sub = an(entity(p2, for_all(u2, in_(u2, p2.items)))), u2 over the named elements:
        # the element is in every parent that holds every named element
        good = [p2 for p2 in CUR_PS if all(any(es[j] is y for y in p2.items) for j in a[1])]
        return all(any(x is y for y in p2.items) for p2 in good)
    if k == "or":
        return holds(a[1], p, x, d, es) or holds(a[2], p, x, d, es)
    if k == "not":
        return not holds(a[1], p, x, d, es)
    raise ValueError(a)


CUR_PS = None


def expected(case, es, ps):
    global CUR_PS
    CUR_PS = ps
    with_d = any(uses_d(a) for a in case["atoms"])
    rows = []
    for pi, p in enumerate(ps):
        for x in p.items:
            for d in (es if with_d else [None]):
                if all(holds(a, p, x, d, es) for a in [case["c0"], case["c1"]] + case["atoms"]):
                    lab = {"p": f"Par{pi}", "e": f"E{x.n}", "d": f"E{d.n}" if d is not None else None}
                    rows.append(tuple(lab[s] for s in case["sel"]))
    return rows


def all_selected(case):
    """every variable of the query is selected (then the row COUNT is specified too); a nested an() with several solutions
    brings a variable of its own that nobody selects"""
    if tags(case) & {"e_le_sub_an", "exists_an", "dn_le_an_flat", "p_has_elem", "p_has_elem_gt_k"}:
        return False
    with_d = any(uses_d(a) for a in case["atoms"])
    return set(case["sel"]) == ({"p", "e", "d"} if with_d else {"p", "e"})


# ---------------------------------------------------------------------------------------------------- real query
def build(case, es, ps, quant="an"):
    from entity_query_language import symbolic_mode, an, the, entity, set_of, let, in_, or_, not_, for_all
    from entity_query_language.entity import flatten, concatenate
    with symbolic_mode():
        p = let(Par, ps)
        e = flatten(p.items)
        if case.get("e_spelling") == "an_entity_flatten":
            e = an(entity(e))
        elif case.get("e_spelling") == "an_entity_flatten_or":
            from entity_query_language import and_
            t_ = case.get("e_or_t", 3)
            e = an(entity(e, or_(and_(e.n > t_, e.n <= 6), e.n <= t_)))
        d = let(E, es)

        def sym(a):
            k = a[0]
            if k == "pk":
                return OPS[a[1]](p.k, a[2])
            if k == "en":
                return OPS[a[1]](e.n, a[2])
            if k == "en_vs_pk_in_subquery":
                return an(entity(p, OPS[a[1]](e.n, p.k)))
            if k == "en_in_subquery":
                return an(entity(p, OPS[a[1]](e.n, a[2])))
            if k == "dn":
                return OPS[a[1]](d.n, a[2])
            if k == "e_in_tuple":
                return in_(e.n, tuple(a[1]))
            if k == "pred_le":
                return f_le(e, d.n)
            if k == "e_obj_in":
                return in_(e, tuple(es[j] for j in a[1]))
            if k == "e_eq_d":
                return e == d
            if k == "pred_default":
                return f_nd(e) if a[1] is None else f_nd(e, a[1])
            if k == "dn_le_an_flat":
                return d.n <= an(entity(flatten(p.items))).n
            if k == "p_has_elem_gt_k":
                return an(entity(p, flatten(p.items).n > p.k))
            if k == "p_has_elem":
                return an(entity(p, flatten(p.items).n > a[1]))
            if k == "d_is_the_e":
                y = let(E, es)
                return d == the(entity(y, y.n == e.n))
            if k == "e_le_sub_an":
                y = let(E, es)
                return e.n <= an(entity(y, y.n > a[1])).n
            if k == "exists_an":
                y = let(E, es)
                return an(entity(y, y.n > e.n, y.n <= a[1]))
            if k == "d_in_conc_p":
                return in_(d, concatenate(p.items))
            if k == "d_in_conc_esubs":
                return in_(d, concatenate(e.subs))
            if k == "d_in_conc_psubs":
                return in_(d, concatenate(flatten(p.items).subs))
            if k == "forall_var_pred":
                u2 = let(E, [es[j] for j in a[1]])
                return for_all(u2, f_pair(u2, d) if a[2] is None else f_pair(u2, d, a[2]))
            if k == "forall_subs_pred":
                u = flatten(e.subs)
                return for_all(u, f_nd(u) if a[1] is None else f_nd(u, a[1]))
            if k == "forall_subs":
                u = flatten(e.subs)
                return for_all(u, OPS[a[1]](u.n, a[2]))
            if k == "forall_items_an":
                b = let(E, es)
                items = an(entity(b, in_(b, p.items)))
                return for_all(items, OPS[a[1]](items.n, a[2]))
            if k == "forall_subs_vs_d":
                u = flatten(e.subs)
                return for_all(u, OPS[a[1]](u.n, d.n))
            if k == "pred_conc_arg":
                return f_member(d, e, concatenate(d.subs))
            if k == "forall_flat_free_parent":
                p2 = let(Par, ps)
                u = flatten(p2.items)
                return for_all(u, f_clr(u, p2, d))
            if k == "forall_over_query_with_forall":
                p2 = let(Par, ps)
                u2 = let(E, [es[j] for j in a[1]])
                sub = an(entity(p2, for_all(u2, in_(u2, p2.items))))
                return for_all(sub, in_(e, sub.items))
            if k == "or":
                return or_(sym(a[1]), sym(a[2]))
            if k == "not":
                return not_(sym(a[1]))
            raise ValueError(a)
        conds = [sym(case["c0"]), sym(case["c1"])] + [sym(a) for a in case["atoms"]]
        v = {"p": p, "e": e, "d": d}
        q = (the if quant == "the" else an)(set_of([v[s] for s in case["sel"]], *conds))
    plab = {id(x): f"Par{i}" for i, x in enumerate(ps)}

    def enc(row):
        out = []
        for s in case["sel"]:
            o = row[v[s]]
            out.append(plab.get(id(o), "?") if s == "p" else f"E{getattr(o, 'n', '?')}" if isinstance(o, E) else f"?{type(o).__name__}")
        return tuple(out)
    return q, enc


def run(case, caching=True, times=1, perm=None):
    """-> (list of encoded row lists, expected rows)"""
    from entity_query_language.cache_data import enable_caching, disable_caching
    es, ps = build_world(case["world"], perm)
    exp = expected(case, es, ps)
    (enable_caching if caching else disable_caching)()
    try:
        q, enc = build(case, es, ps)
        return [[enc(r) for r in q.evaluate()] for _ in range(times)], exp
    finally:
        enable_caching()


def tags(case):
    out = set()

    def walk(a):
        out.add(a[0])
        if a[0] in ("or", "not"):
            for s in a[1:]:
                walk(s)
    for a in case["atoms"]:
        walk(a)
    return out


def run_for_c05(case, caching, times):
    gots, exp = run(case, caching, times)
    return gots, exp, all_selected(case)


def check(c, ctx):
    """feature-interaction query (eqlmon/ix.py): flatten + nested an()/the() + concatenate + for_all + predicates in one query"""
    from collections import Counter
    ctx.cls("cls:feature_interaction_query")
    ctx.cls("cls:ix:element_spelled:" + c.get("e_spelling", "flatten"))
    for t in tags(c):
        ctx.cls("cls:ix:" + t)
    try:
        gots, exp = run(c, c["caching"], times=2)
    except Exception as e:
        import traceback
        ctx.fail("EXC", f"ix: {type(e).__name__}: {e}\n{traceback.format_exc()[-600:]}")
        return
    n_all = sum(len(p["items"]) for p in c["world"]["parents"])
    if 0 < len(set(exp)) and len(exp) < n_all * (6 if any(uses_d(a) for a in c["atoms"]) else 1):
        ctx.nontrivial()
    for n, g in enumerate(gots):
        same = Counter(g) == Counter(exp) if all_selected(c) else set(g) == set(exp)
        if not same:
            kind = ("SET:" if set(g) != set(exp) else "MULTIPLICITY:") + ("missing" if set(exp) - set(g) else "") + ("+extra" if set(g) - set(exp) else "")
            ctx.fail(kind, {"evaluation_no": n + 1, "query": {k: c[k] for k in ("c0", "c1", "atoms", "sel", "caching")},
                            "missing": sorted(set(exp) - set(g))[:8], "extra": sorted(set(g) - set(exp))[:8],
                            "n_expected": len(exp), "n_observed": len(g)})
            break
    ctx.sample({"feature_interaction": {k: c[k] for k in ("c0", "c1", "atoms", "sel")}, "expected_rows": len(exp), "observed_rows": len(gots[0])})




FEATURE_TAGS = {
    "C10": {"forall_subs", "forall_items_an", "forall_subs_vs_d", "forall_over_query_with_forall", "forall_flat_free_parent", "forall_subs_pred", "forall_var_pred"},
    "C15": {"d_is_the_e", "e_le_sub_an", "exists_an", "dn_le_an_flat", "p_has_elem", "p_has_elem_gt_k", "forall_items_an", "en_in_subquery", "en_vs_pk_in_subquery"},
    "C16": None,        # every IX query unnests a collection
    "C17": {"d_in_conc_p", "d_in_conc_esubs", "d_in_conc_psubs", "pred_conc_arg"},
}


def gen_case_for(rng, check_id):
    """an IX case that contains the feature of the given property's check"""
    want = FEATURE_TAGS.get(check_id)
    for _ in range(200):
        c = gen_case(rng)
        if want is None or (tags(c) | {c["c1"][0]}) & want:
            return c
    return c


def gen_pair_case(rng, k1, k2):
    """an IX case whose atoms are exactly one atom of kind k1 followed by one of kind k2 (pairwise feature-interaction coverage)"""
    return gen_case(rng, atoms=[gen_atom(rng, kind=k1), gen_atom(rng, kind=k2)])
