"""Multi-variable query cases shared by C02 / C03 / C05 / C15 / C18: generation, evaluation on the real code,
expected rows from the oracle.

case = {"world": spec, "kinds": ["P","Q",...], "cond": AST|None, "sel": [item...], "caching": bool, "form": ..., ...}
sel item = int (variable index) | ["v", i, path] (a selected attribute expression)
"""
from __future__ import annotations

import itertools
from collections import Counter

from . import cond as C
from . import data as D
from . import harness as H


def gen_case(rng, nvars=(1, 4), depth=(1, 4), opts=None, sel_mode=None, allow_expr_sel=True, world_kw=None,
             equal_valued=0.0):
    nv = rng.randint(*nvars)
    kinds = [rng.choice("PQ") for _ in range(nv)]
    world = D.random_world(rng, **(world_kw or {}))
    if equal_valued and rng.random() < equal_valued:
        D.add_equal_valued_objects(rng, world, n=(2, 4))
        kinds[rng.randrange(nv)] = "E"
    d = rng.randint(*depth)
    o = {"p_leaf": 0.2}
    if opts:
        o.update(opts)
    cond = C.gen_cond(rng, kinds, d, o)
    mode = sel_mode or rng.choice(["all", "all", "subset"])
    if mode == "all":
        sel = list(range(nv))
        rng.shuffle(sel)
    else:
        sel = rng.sample(range(nv), rng.randint(1, nv))
        if allow_expr_sel and rng.random() < 0.25:
            i = rng.randrange(nv)
            path = rng.choice([[["a", "a"]], [["a", "b"]]] + ([[["a", "p"]], [["a", "p"], ["a", "a"]]] if kinds[i] == "Q" else []))
            sel.insert(rng.randint(0, len(sel)), ["v", i, path])
    return {"world": world, "kinds": kinds, "cond": cond, "sel": sel}


def all_selected(case):
    s = [x for x in case["sel"] if isinstance(x, int)]
    return sorted(s) == list(range(len(case["kinds"]))) and len(s) == len(case["sel"])


def _enc(m, v):
    if id(v) in m:
        return m[id(v)]
    return ["val", repr(v)]


def expected(case, world, perm=None):
    """Rows (tuples) in product order."""
    m = H.labels_of(world)
    doms = H.domains(world, case["kinds"], perm)
    out = []
    cond = case["cond"]
    for asg in itertools.product(*doms):
        if cond is None or C.holds(cond, asg):
            row = []
            for s in case["sel"]:
                if isinstance(s, int):
                    row.append(m[id(asg[s])])
                else:
                    row.append(_freeze(_enc(m, C.ev(s, asg))))
            out.append(tuple(row))
    return out


def _freeze(x):
    return tuple(x) if isinstance(x, list) else x


def build(case, world, *, order=None, perm=None, how="let", form="set_of", register=True, split_top_and=False,
          negate_description=False):
    """-> (query, selected EQL expressions)"""
    from entity_query_language import symbolic_mode, an, set_of, entity
    doms = H.domains(world, case["kinds"], perm)
    with symbolic_mode():
        xs = H.declare(case["kinds"], doms, how, order)
        C.CUR_WORLD = world
        cond = case["cond"]
        if negate_description and cond is not None and cond[0] in ("not", "~") and form == "set_of":
            # not_(set_of(selection, c1, c2, ...)): the negation applied to the DESCRIPTION (its conditions taken together)
            from entity_query_language import not_
            inner = cond[1]
            parts = inner[1:] if inner[0] in ("and", "&") else [inner]
            conds = [C.build(s, xs, 1, register) for s in parts]
            sel_exprs = [xs[s] if isinstance(s, int) else C.bval(s, xs) for s in case["sel"]]
            return an(not_(set_of(sel_exprs, *conds))), xs, sel_exprs
        if cond is None:
            conds = []
        elif split_top_and and cond[0] in ("and", "&"):
            conds = [C.build(s, xs, 0, register) for s in cond[1:]]
        else:
            conds = [C.build(cond, xs, 0, register)]
        sel_exprs = [xs[s] if isinstance(s, int) else C.bval(s, xs) for s in case["sel"]]
        if form == "entity":
            q = an(entity(sel_exprs[0], *conds))
        elif form == "direct_list":
            q = an(sel_exprs, *conds)
        else:
            q = an(set_of(sel_exprs, *conds))
    return q, xs, sel_exprs


def rows(q, sel_exprs, world, form="set_of"):
    m = H.labels_of(world)
    out = []
    for r in q.evaluate():
        if form == "entity":
            out.append((_freeze(_enc(m, r)),))
        else:
            out.append(tuple(_freeze(_enc(m, r[e])) for e in sel_exprs))
    return out


def evaluate(case, world, *, caching=True, times=1, **kw):
    """Fresh build, then `times` evaluations.  Returns list of row lists."""
    from entity_query_language.cache_data import enable_caching, disable_caching
    (enable_caching if caching else disable_caching)()
    try:
        form = kw.get("form", "set_of")
        take_first, keep_first = kw.pop("take_first", 0), kw.pop("keep_first", False)
        first_under_other_switch = kw.pop("first_under_other_switch", False)
        q, xs, sel_exprs = build(case, world, **kw)
        if first_under_other_switch:    # an earlier COMPLETE evaluation while the caching switch was the other way round
            (disable_caching if caching else enable_caching)()
            for _ in q.evaluate():
                pass
            (enable_caching if caching else disable_caching)()
        if take_first:      # an earlier evaluation that is left after a few rows: closed, or suspended and kept alive
            it = iter(q.evaluate())
            for _ in range(take_first):
                if next(it, None) is None:
                    break
            if keep_first:
                kept = it
            else:
                it.close()
        return [rows(q, sel_exprs, world, form) for _ in range(times)]
    finally:
        enable_caching()


def compare(case, got, exp):
    """None if got agrees with exp at the strength C02 states: set always, multiset when all variables are selected."""
    return H.diff_kind(got, exp, ordered=False, multiset=all_selected(case))


def nontrivial(case, world, exp):
    return 0 < len(set(exp)) and len(exp) < H.count_product(world, case["kinds"])


def vars_mentioned_not_selected(case):
    sel_vars = {s if isinstance(s, int) else s[1] for s in case["sel"]}
    ment = C.mentioned(case["cond"]) if case["cond"] is not None else set()
    return sorted(ment - sel_vars)


# ------------------------------------------------------------------------------------------------ scale
SCALE_FLAVOURS = ["single_big", "join_big", "selfjoin_big", "triangle", "wide_join", "many_vars", "wide_or_eq"]


def gen_scale_case(rng, flavour=None):
    """Queries whose SIZE is the point: domains of 40-300 objects, joins with more than a thousand candidate rows, self-joins
    (both variables over the same objects), 5-6 variables, 6-9 operands - where an index, a bounded cache, a batch size or a
    hash-join threshold starts to matter.  Same vocabulary and oracle as the small cases."""
    flavour = flavour or rng.choice(SCALE_FLAVOURS)
    A = lambda i, f: ["v", i, [["a", f]]]
    cmp_ = lambda op, l, r: ["cmp", op, l, r]
    op = lambda: rng.choice(["<", "<=", ">", ">=", "!=", "=="])
    if flavour == "single_big":
        world = D.random_world(rng, np_=(80, 300), nq=(1, 2), hi=9, rich=False)
        c1 = rng.choice([cmp_(op(), A(0, "a"), A(0, "b")), cmp_(op(), A(0, "a"), ["lit", rng.randint(2, 7)])])
        c2 = rng.choice([cmp_(op(), A(0, "b"), A(0, "a")), cmp_(op(), A(0, "b"), ["lit", rng.randint(2, 7)]),
                         ["in", A(0, "k1000"), ["big", 3, 3 + rng.randint(66, 80)]]])
        cond = [rng.choice(["and", "and", "or"]), c1, c2]
        if rng.random() < 0.3:
            cond = ["not", cond]
        return {"world": world, "kinds": ["P"], "cond": cond, "sel": [0], "scale": flavour}
    if flavour in ("join_big", "selfjoin_big"):
        n = (35, 50)
        world = D.random_world(rng, np_=n, nq=n if flavour == "join_big" else (1, 2), hi=rng.choice([5, 6, 8]), rich=False)
        kinds = ["P", "Q"] if flavour == "join_big" else ["P", "P"]
        j1 = cmp_(rng.choice(["==", "==", "<=", "!="]), A(0, "a"), A(1, "a"))
        j2 = cmp_(rng.choice(["!=", "<", "==", ">="]), A(0, "b"), A(1, "b"))
        cond = rng.choice([["and", j1, j2], ["and", j2, j1], ["or", ["and", j1, j2], cmp_(">", A(0, "b"), A(1, "a"))],
                           ["not", ["and", j2, j1]], ["and", j1, cmp_(op(), A(1, "b"), ["lit", 3])]])
        return {"world": world, "kinds": kinds, "cond": cond, "sel": rng.choice([[0, 1], [1, 0], [0, 1]]), "scale": flavour}
    if flavour == "triangle":
        world = D.random_world(rng, np_=(40, 48), nq=(3, 5), hi=6, rich=False)
        cond = ["and", cmp_("==", A(0, "a"), A(1, "a")), cmp_("==", A(1, "b"), A(2, "b")), cmp_(rng.choice(["==", "<="]), A(0, "b"), A(2, "a"))]
        return {"world": world, "kinds": ["P", "Q", "P"], "cond": cond, "sel": [0, 1, 2], "scale": flavour}
    if flavour == "wide_or_eq":
        # 6-8 equality alternatives over TWO variables of the same type (an IN-list per variable, written out)
        world = D.random_world(rng, np_=(5, 8), nq=(1, 2), hi=7, rich=False)
        k = rng.randint(3, 4)
        f = rng.choice("ab")
        parts = [cmp_("==", A(0, f), ["lit", v]) for v in rng.sample(range(1, 8), k)] + \
                [cmp_("==", A(1, f), ["lit", v]) for v in rng.sample(range(1, 8), k)]
        if rng.random() < 0.4:
            rng.shuffle(parts)
        return {"world": world, "kinds": ["P", "P"], "cond": ["or"] + parts, "sel": [0, 1], "scale": flavour}
    if flavour == "wide_join":
        # and_/or_ with 6-9 operands over two variables
        world = D.random_world(rng, np_=(4, 7), nq=(4, 7), hi=5, rich=False)
        k = rng.randint(6, 9)
        parts = [cmp_(op(), A(rng.randrange(2), rng.choice("ab")), rng.choice([A(rng.randrange(2), rng.choice("ab")), ["lit", rng.randint(1, 5)]]))
                 for _ in range(k)]
        conj = rng.random() < 0.5
        if conj:    # (keep a wide conjunction satisfiable: mostly weak comparisons)
            parts = [cmp_(rng.choice(["<=", ">=", "!="]), p[2], p[3]) for p in parts]
        return {"world": world, "kinds": ["P", "Q"], "cond": ["and" if conj else "or"] + parts, "sel": [0, 1], "scale": flavour}
    # many_vars: 5-6 variables over small domains, chained joins plus a disjunction
    nv = rng.randint(5, 6)
    world = D.random_world(rng, np_=(2, 3), nq=(2, 3), hi=3, rich=False)
    kinds = [rng.choice("PQ") for _ in range(nv)]
    parts = [cmp_(rng.choice(["<=", "==", "!=", ">="]), A(i, rng.choice("ab")), A(i + 1, rng.choice("ab"))) for i in range(nv - 1)]
    if rng.random() < 0.6:
        i, j = rng.sample(range(nv), 2)
        parts.append(["or", cmp_(op(), A(i, "a"), A(j, "b")), cmp_(op(), A(j, "a"), ["lit", 2])])
    rng.shuffle(parts)
    sel = list(range(nv))
    if rng.random() < 0.4:
        sel = rng.sample(sel, rng.randint(2, nv - 1))
    return {"world": world, "kinds": kinds, "cond": ["and"] + parts, "sel": sel, "scale": flavour}
