"""Run-time monitors, attached from outside (DESIGN 1.3).  Nothing here edits the repository.

M-node   wrapper around every `_evaluate__` generator: entered / yielded-true / yielded-false / unwound counts per
         node class and operand role (path coverage evidence; floors turn a never-reached path into INCONCLUSIVE)
M-leaf   invariant at that hook: after each yield of a registered leaf, `node._is_false_` must agree with the
         reference truth of the leaf under the concrete binding just yielded
M-cache  IndexedCache.check / retrieve / insert: hits actually taken; retrieve-deviation detector (K20 firing live)
M-dedup  SymbolicExpression._is_duplicate_output_: suppressions; switch to force it off (counterfactual for K02)
M-line   sys.monitoring LINE events (each location reported once): executed lines of the package, reported per function

All state is plain Python mutated in the thread that runs the code it shadows (the library is single threaded).
"""
from __future__ import annotations

import inspect
import os
import sys
from collections import Counter

ATTACHED = False
COUNTS = Counter()          # per-case, folded into the shard counters by end_case()
LEAVES = {}                 # id(node) -> (leaf_ast, parity, xs, holds)   filled by build.py
LEAF_MISMATCHES = []        # per-case
RETRIEVE_EVENTS = []        # per-case: 'exact' | 'known_deviation' | 'other_deviation'
RETRIEVE_HIDDEN = []        # per-case: for every deviating retrieve the outputs of the entries it did not return
FORCE_DEDUP_OFF = False
FORCE_SPEC_RETRIEVE = False  # counterfactual for K05: retrieve answers exactly what C20 specifies (removes K20 only)
_LINES = set()
_PKG_DIR = None
_KEEP = []                  # keep registered nodes alive so id() stays unique within a case


def begin_case():
    COUNTS.clear()
    LEAVES.clear()
    _KEEP.clear()
    LEAF_MISMATCHES.clear()
    RETRIEVE_EVENTS.clear()
    RETRIEVE_HIDDEN.clear()
    global FORCE_DEDUP_OFF, FORCE_SPEC_RETRIEVE
    FORCE_DEDUP_OFF = False
    FORCE_SPEC_RETRIEVE = bool(os.environ.get("EQL_EXPERIMENT_SPEC_RETRIEVE"))   # experiments only, never set by ./check


def end_case():
    c = Counter(COUNTS)
    COUNTS.clear()
    LEAVES.clear()
    _KEEP.clear()
    return c


def executed_lines():
    return {f"{f}:{ln}" for f, ln in _LINES}


def register_leaf(node, leaf_ast, parity, xs, holds):
    LEAVES[id(node)] = (leaf_ast, parity, xs, holds)
    _KEEP.append(node)


# ---------------------------------------------------------------- M-node / M-leaf
def _role(node):
    try:
        p = node._eval_parent_
        if p is None:
            np_ = node._node_.parent
            p = np_.data if np_ is not None else None
        if p is None:
            return ""
        if getattr(p, "left", None) is node:
            return "@" + type(p).__name__ + ".L"
        if getattr(p, "right", None) is node:
            return "@" + type(p).__name__ + ".R"
        return "@" + type(p).__name__
    except Exception:
        return ""


def _check_leaf(node, ent, v):
    leaf_ast, parity, xs, holds = ent
    try:
        asg = []
        for x in xs:
            hv = v.get(x._id_)
            if hv is None:
                asg.append(None)
            else:
                asg.append(hv.value)
        truth = holds(leaf_ast, asg)
    except _Unbound:
        COUNTS["leaf.unbound"] += 1
        return
    except Exception:
        COUNTS["leaf.oracle_error"] += 1
        return
    expected_false = (not truth) if parity == 0 else bool(truth)
    if bool(node._is_false_) != expected_false:
        COUNTS["leaf.MISMATCH"] += 1
        if len(LEAF_MISMATCHES) < 5:
            LEAF_MISMATCHES.append({"leaf": leaf_ast, "negations_above": parity, "flag_is_false": bool(node._is_false_),
                                    "expected_is_false": expected_false, "node": type(node).__name__})
    else:
        COUNTS["leaf.ok"] += 1


class _Unbound(Exception):
    pass


def _watch(node, name, gen, sources):
    role = _role(node)
    key = name + role
    COUNTS[key + ".enter"] += 1
    ent = LEAVES.get(id(node))
    passthrough = bool(sources) and getattr(node, "_id_", None) in sources
    try:
        for v in gen:
            if getattr(node, "_is_false_", False):
                COUNTS[key + ".F"] += 1
            else:
                COUNTS[key + ".T"] += 1
            if ent is not None and not passthrough:
                _check_leaf(node, ent, v)
            yield v
    except GeneratorExit:
        COUNTS["unwind.close"] += 1
        raise
    except BaseException:
        COUNTS["unwind.exc"] += 1
        raise
    finally:
        gen.close()


def _wrap_evaluate(cls, orig, by_type):
    cname = cls.__name__

    def _evaluate__(self, *a, **k):
        gen = orig(self, *a, **k)
        if not inspect.isgenerator(gen):
            return gen
        sources = a[0] if a else k.get("sources")
        return _watch(self, type(self).__name__ if by_type else cname, gen, sources)

    _evaluate__.__wrapped__ = orig
    _evaluate__.__name__ = "_evaluate__"
    return _evaluate__


# ---------------------------------------------------------------- M-cache
def _canon(r, o):
    return (tuple(sorted((k, getattr(v, "id_", id(v))) for k, v in r.items())), repr(o))


def spec_walk(cache_obj, assignment):
    """Every stored entry whose binding agrees with the lookup on every shared key (C20), read from the cache's
    own nested dict."""
    from entity_query_language.cache_data import CacheDict
    from entity_query_language.utils import All
    keys = cache_obj.keys
    out = []

    def rec(node, idx, res):
        if idx == len(keys):
            out.append(_canon(res, node))
            return
        if not isinstance(node, CacheDict):
            return
        k = keys[idx]
        for ck, cv in node.items():
            if ck is All:
                rec(cv, idx + 1, res)
            elif k in assignment:
                if assignment[k] == ck:
                    rec(cv, idx + 1, res)
            else:
                r = dict(res)
                r[k] = ck
                rec(cv, idx + 1, r)

    if keys:
        rec(cache_obj.cache, 0, dict(assignment))
    return Counter(out)


def spec_entries(cache_obj, assignment):
    """Like spec_walk but returns the real (merged binding, stored output) pairs (used by the K05 counterfactual)."""
    from entity_query_language.cache_data import CacheDict
    from entity_query_language.utils import All
    keys = cache_obj.keys
    out = []

    def rec(node, idx, res):
        if idx == len(keys):
            out.append((res, node))
            return
        if not isinstance(node, CacheDict):
            return
        k = keys[idx]
        for ck, cv in list(node.items()):
            if ck is All:
                rec(cv, idx + 1, res)
            elif k in assignment:
                if assignment[k] == ck:
                    rec(cv, idx + 1, res)
            else:
                r = dict(res)
                r[k] = ck
                rec(cv, idx + 1, r)

    if keys:
        rec(cache_obj.cache, 0, dict(assignment))
    return out


def deviation_walk(cache_obj, assignment):
    """Executable model of known finding K20: at a level whose key the lookup binds a concrete child hides the
    wildcard child, at an unbound level a wildcard child hides the concrete ones."""
    from entity_query_language.cache_data import CacheDict
    from entity_query_language.utils import All
    keys = cache_obj.keys
    out = []

    def find(node, key):
        for ck, cv in node.items():
            if ck is All:
                if key is All:
                    return cv
            elif key is not All and ck == key:
                return cv
        return None

    def rec(node, idx, res):
        if idx == len(keys):
            out.append(_canon(res, node))
            return
        if not isinstance(node, CacheDict):
            return
        k = keys[idx]
        if k in assignment:
            nxt = find(node, assignment[k])
            if nxt is None:
                nxt = find(node, All)
            if nxt is not None:
                rec(nxt, idx + 1, res)
        else:
            w = find(node, All)
            if w is not None:
                rec(w, idx + 1, res)
            else:
                for ck, cv in node.items():
                    r = dict(res)
                    r[k] = ck
                    rec(cv, idx + 1, r)

    if keys and cache_obj.cache:
        rec(cache_obj.cache, 0, dict(assignment))
    return Counter(out)


def _attach_cache():
    from entity_query_language import cache_data
    IC = cache_data.IndexedCache
    o_check, o_retrieve, o_insert = IC.check, IC.retrieve, IC.insert

    def check(self, assignment):
        r = o_check(self, assignment)
        COUNTS["cache.check"] += 1
        if r:
            COUNTS["cache.check.hit"] += 1
        return r

    def insert(self, assignment, output, index=True):
        COUNTS["cache.insert"] += 1
        return o_insert(self, assignment, output, index=index)

    def retrieve(self, assignment=None, cache=None, key_idx=0, result=None, from_index=True):
        if cache is None and from_index and assignment is not None and self.keys and FORCE_SPEC_RETRIEVE:
            COUNTS["cache.retrieve.forced_spec"] += 1
            self.enter_count += 1
            for r, o in spec_entries(self, assignment):
                yield dict(r), o
        elif cache is None and from_index and assignment is not None and self.keys:
            exp = spec_walk(self, assignment)
            dev = deviation_walk(self, assignment)
            got = []
            complete = False
            try:
                for r, o in o_retrieve(self, assignment, cache, key_idx, result, from_index):
                    got.append(_canon(r, o))
                    yield r, o
                complete = True
            finally:
                COUNTS["cache.retrieve"] += 1
                if complete:
                    g = Counter(got)
                    if g == exp:
                        ev = "exact"
                    elif g == dev:
                        ev = "known_deviation"
                    else:
                        ev = "other_deviation"
                    COUNTS["cache.retrieve." + ev] += 1
                    RETRIEVE_EVENTS.append(ev)
                    if ev != "exact":
                        RETRIEVE_HIDDEN.append((sorted(o_ for _, o_ in (exp - g).elements()),
                                                sorted(o_ for _, o_ in (g - exp).elements())))
                else:
                    COUNTS["cache.retrieve.abandoned"] += 1
        else:
            yield from o_retrieve(self, assignment, cache, key_idx, result, from_index)

    IC.check, IC.retrieve, IC.insert = check, retrieve, insert


# ---------------------------------------------------------------- M-dedup
def _attach_dedup():
    from entity_query_language.symbolic import SymbolicExpression
    orig = SymbolicExpression._is_duplicate_output_

    def _is_duplicate_output_(self, output):
        if FORCE_DEDUP_OFF:
            COUNTS["dedup.forced_off"] += 1
            return False
        r = orig(self, output)
        COUNTS["dedup.call"] += 1
        if r:
            COUNTS["dedup.suppressed." + type(self).__name__] += 1
        return r

    SymbolicExpression._is_duplicate_output_ = _is_duplicate_output_


# ---------------------------------------------------------------- M-line
def _attach_lines():
    global _PKG_DIR
    import entity_query_language
    _PKG_DIR = os.path.dirname(os.path.abspath(entity_query_language.__file__)) + os.sep
    mon = getattr(sys, "monitoring", None)
    if mon is None:
        return
    tool = mon.COVERAGE_ID
    try:
        mon.use_tool_id(tool, "eqlmon")
    except ValueError:
        return
    pkg = _PKG_DIR

    def on_line(code, line):
        fn = code.co_filename
        if fn.startswith(pkg):
            _LINES.add((fn[len(pkg):], line))
        return mon.DISABLE

    mon.register_callback(tool, mon.events.LINE, on_line)
    mon.set_events(tool, mon.events.LINE)


def attach():
    """Attach all monitors (idempotent)."""
    global ATTACHED
    if ATTACHED:
        return
    ATTACHED = True
    from entity_query_language import symbolic, conclusion_selector, conclusion  # noqa: F401
    from entity_query_language.symbolic import SymbolicExpression, DomainMapping, Variable
    seen = set()

    def walk(c):
        for s in c.__subclasses__():
            if s not in seen:
                seen.add(s)
                walk(s)

    walk(SymbolicExpression)
    for cls in seen:
        if not cls.__module__.startswith("entity_query_language"):
            continue
        f = cls.__dict__.get("_evaluate__")
        if f is None or getattr(f, "__isabstractmethod__", False) or hasattr(f, "__wrapped__"):
            continue
        if not inspect.isgeneratorfunction(f):
            continue
        setattr(cls, "_evaluate__", _wrap_evaluate(cls, f, by_type=cls in (DomainMapping, Variable)))
    _attach_cache()
    _attach_dedup()
    _attach_lines()
