"""Harness self-test (MANIFEST.setup_cmd): the oracle against hand-computed cases, monitor attachment, the
deviation/spec cache walks on a hand-built cache, evidence schema of whatever evidence files exist."""
from __future__ import annotations

import json
import os
import sys

from . import VERIF_DIR, REPO_DIR


def _oracle():
    from . import cond as C
    from . import data as D
    w = D.build_world({"P": [{"a": 1, "b": 3, "s": "xy", "t": [1, 2], "d": {"k": 2}, "flag": False},
                             {"a": 3, "b": 1, "s": "y", "t": [4], "d": {"k": 1}, "flag": True}],
                       "Q": [{"a": 2, "p": 1, "b": 2}]})
    p0, p1 = w["P"]
    q0 = w["Q"][0]
    A = lambda i, n: ["v", i, [["a", n]]]
    checks = [
        (["cmp", "==", A(0, "a"), ["lit", 1]], (p0,), True),
        (["cmp", "<", ["lit", 2], A(0, "a")], (p0,), False),
        (["not", ["cmp", ">=", A(0, "b"), A(0, "a")]], (p1,), True),
        (["in", ["lit", 2], A(0, "t")], (p0,), True),
        (["has", A(0, "s"), ["lit", "x"]], (p1,), False),
        (["truth", A(0, "flag")], (p0,), False),
        (["truth", ["v", 0, [["c", "big", [2]]]]], (p1,), True),
        (["cmp", "==", ["v", 0, [["a", "p"]]], ["v", 1, []]], (q0, p1), True),
        (["cmp", "==", ["v", 0, [["a", "p"]]], ["v", 1, []]], (q0, p0), False),
        (["or", ["and", ["cmp", ">", A(0, "a"), ["lit", 2]], ["truth", A(0, "flag")]], ["~", ["truth", A(0, "flag")]]], (p0,), True),
        (["fpred", "f_gt", [["v", 0, []], ["lit", 2]]], (p1,), True),
        (["cpred", "CSame", [["v", 0, []], ["v", 1, []]]], (p0, p1), False),
        (["hastype", 0, "Q"], (p0,), False),
        (["cmp", "==", ["v", 0, [["a", "d"], ["i", "k"]]], ["lit", 2]], (p0,), True),
    ]
    for c, asg, want in checks:
        got = C.holds(c, asg)
        assert got == want, (c, got, want)
    assert C.count_trees(6, 2) == len(list(C.enumerate_trees(list(range(6)), 2)))
    nnf = C.push_not(["not", ["and", ["x"], ["not", ["y"]]]])
    assert nnf == ["or", ["not", ["x"]], ["y"]], nnf
    return len(checks)


def _monitors():
    from . import monitors as M
    M.attach()
    from entity_query_language.symbolic import AND, Comparator, ElseIf
    for cls in (AND, Comparator, ElseIf):
        assert hasattr(cls.__dict__["_evaluate__"], "__wrapped__"), cls
    from entity_query_language.cache_data import IndexedCache
    from entity_query_language.hashed_data import HashedValue
    c = IndexedCache([2, 3])
    v, w, w2 = HashedValue("v"), HashedValue("w"), HashedValue("w2")
    c.insert({2: v}, "o0")
    c.insert({3: w}, "o1")
    look = {3: w2}
    spec = M.spec_walk(c, look)
    dev = M.deviation_walk(c, look)
    assert sum(spec.values()) == 1 and sum(dev.values()) == 0, (spec, dev)  # the K20 witness of DESIGN section 2
    M.begin_case()
    got = list(c.retrieve(dict(look)))
    assert M.RETRIEVE_EVENTS and M.RETRIEVE_EVENTS[-1] in ("known_deviation", "exact"), M.RETRIEVE_EVENTS
    return M.RETRIEVE_EVENTS[-1]


def _evidence():
    schema_path = "/root/.vp/EVIDENCE.schema.json"
    files = sorted(f for f in os.listdir(os.path.join(VERIF_DIR, "evidence")) if f.endswith(".json")) \
        if os.path.isdir(os.path.join(VERIF_DIR, "evidence")) else []
    n = 0
    for f in files:
        with open(os.path.join(VERIF_DIR, "evidence", f)) as fh:
            e = json.load(fh)
        for k in ("property_id", "tier", "seed", "level", "coverage", "wall_s"):
            assert k in e, (f, k)
        cov = e["coverage"]
        assert cov["evaluations"] >= 1 and cov["distinct_nontrivial"] >= 2 and isinstance(cov["samples"], list) and cov["samples"], f
        n += 1
    try:
        import jsonschema  # only in the tooling venv; structural check above is the fallback
        schema = json.load(open(schema_path))
        for f in files:
            jsonschema.validate(json.load(open(os.path.join(VERIF_DIR, "evidence", f))), schema)
    except ImportError:
        pass
    return n


def main():
    import entity_query_language
    src = os.path.realpath(os.path.dirname(entity_query_language.__file__))
    want = os.path.realpath(os.path.join(REPO_DIR, "src", "entity_query_language"))
    assert src == want, (src, want)
    n = _oracle()
    ev = _monitors()
    ne = _evidence()
    from . import runner
    ids = runner.all_check_ids()
    for cid in ids:
        mod = runner.load_check(cid)
        for attr in ("ID", "plan", "cases", "check_case"):
            assert hasattr(mod, attr), (cid, attr)
        assert mod.ID == cid
    print(f"self-test ok: oracle cases={n} retrieve_witness={ev} evidence_files={ne} checks={len(ids)} code_under_test={src}")
    return 0


if __name__ == "__main__":
    sys.exit(main())
