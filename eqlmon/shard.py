"""One shard = one process: generates its cases, runs the real code under the monitors, records what was observed.

usage: python -m eqlmon.shard <Cxx> <spec.json> <out.json>
"""
from __future__ import annotations

import gc
import json
import os
import random
import signal
import sys
import time
import traceback
from collections import Counter

from . import REPO_DIR, guard_on
from .runner import case_hash, load_check

CASE_TIME_LIMIT = int(os.environ.get("EQL_CASE_TIMEOUT", "60"))


class CaseTimeout(BaseException):
    pass


def _on_alarm(signum, frame):
    raise CaseTimeout()


def reset_eql_state():
    """Put the library's process-global state back to what a fresh process has (what the repo's own test
    fixture does for the registry, plus mode / expression stack / caching switch which a failing case may leave)."""
    from entity_query_language import symbolic as S
    from entity_query_language.cache_data import enable_caching
    for step in (lambda: [c.clear() for c in list(S.Variable._cache_.values())], lambda: S.Variable._cache_.clear(),
                 lambda: S._symbolic_mode.set(None), lambda: S.SymbolicExpression._symbolic_expression_stack_.clear(),
                 enable_caching):
        try:    # each piece of global state on its own: a refactoring that renames one must not break the harness
            step()
        except AttributeError:
            pass


class ShardContext:
    def __init__(self, mod, spec):
        self.mod = mod
        self.spec = spec
        self.evaluations = 0
        self.hashes = set()
        self.failures = []
        self.counters = Counter()
        self.classes = Counter()
        self.masked = Counter()
        self.samples = []
        self.timeouts = 0
        self.extra = {}
        self.case = None
        self.case_index = 0
        self._failed_this_case = False

    # ---- helpers for check modules
    def rng(self, *salt) -> random.Random:
        s = self.spec
        return random.Random(f"{s.get('seed', 0)}:{self.mod.ID}:{s.get('shard', 0)}:{':'.join(map(str, salt))}")

    def count(self, name, n=1):
        self.counters[name] += n

    def cls(self, name, n=1):
        self.classes[name] += n

    def nontrivial(self, case=None):
        self.hashes.add(case_hash(case if case is not None else self.case))

    def sample(self, obj, limit=4):
        if len(self.samples) < limit:
            self.samples.append(obj)

    def fail(self, kind, detail=None, case=None, **kw):
        f = {"kind": kind, "detail": detail, "case": case if case is not None else self.case, "known": None,
             "shard": self.spec.get("shard"), "case_index": self.case_index}
        f.update(kw)
        self._failed_this_case = True
        if hasattr(self.mod, "classify"):
            try:
                reset_eql_state()
                f["known"] = self.mod.classify(f, self)
            except CaseTimeout:
                raise
            except Exception:
                f["classify_error"] = traceback.format_exc()[-1500:]
                f["known"] = None
            finally:
                reset_eql_state()
        if f["known"]:
            self.masked[f["known"]] += 1
        if len(self.failures) < 200:
            self.failures.append(f)
        return f

    # ---- driving one case
    def run_case(self, case):
        self.case = case
        self.evaluations += 1
        self._failed_this_case = False
        from . import monitors
        monitors.begin_case()
        reset_eql_state()
        signal.signal(signal.SIGALRM, _on_alarm)
        signal.alarm(CASE_TIME_LIMIT)
        try:
            self.mod.check_case(case, self)
        except CaseTimeout:
            self.timeouts += 1
        except Exception as e:  # escaped the per-step handlers of the check: the code under test raised where no
            # exception is expected (e.g. while the query was built), or the harness is broken - both are loud.
            self.fail("EXC", f"{type(e).__name__}: {e}\n{traceback.format_exc()[-2500:]}")
        finally:
            signal.alarm(0)
            try:
                reset_eql_state()
            except Exception:
                pass
            self.counters.update(monitors.end_case())

    def result(self):
        from . import monitors
        import entity_query_language
        return {
            "evaluations": self.evaluations, "hashes": sorted(self.hashes), "failures": self.failures,
            "counters": dict(self.counters), "classes": dict(self.classes), "samples": self.samples,
            "timeouts": self.timeouts, "masked": dict(self.masked), "extra": self.extra,
            "lines": sorted(monitors.executed_lines()),
            "code_under_test": os.path.dirname(entity_query_language.__file__),
        }


def main(argv):
    cid, spec_path, out_path = argv
    with open(spec_path) as f:
        spec = json.load(f)
    import entity_query_language
    src = os.path.realpath(os.path.dirname(entity_query_language.__file__))
    want = os.path.realpath(os.path.join(REPO_DIR, "src", "entity_query_language"))
    if src != want:
        print(f"code under test is {src}, expected {want}")
        return 3
    from . import monitors
    if guard_on():
        monitors.attach()
    mod = load_check(cid)
    ctx = ShardContext(mod, spec)
    gc.collect()
    gc.freeze()  # imported modules (numpy, matplotlib, ...) never become garbage: keep them out of every later collection
    t_flush = time.time()
    for i, case in enumerate(mod.cases(spec, ctx)):
        ctx.case_index = i
        ctx.run_case(case)
        if i % 25 == 24:
            # the library keeps every expression alive (global graph, lru caches): move the survivors out of the
            # collector's view so that gc.collect() in the workloads stays cheap
            gc.collect()
            gc.freeze()
        if time.time() - t_flush > 30:
            t_flush = time.time()
            with open(out_path + ".partial.tmp", "w") as f:
                json.dump(ctx.result(), f, default=repr)
            os.replace(out_path + ".partial.tmp", out_path + ".partial")
    with open(out_path + ".tmp", "w") as f:
        json.dump(ctx.result(), f, default=repr)
    os.replace(out_path + ".tmp", out_path)
    return 0


if __name__ == "__main__":
    sys.exit(main(sys.argv[1:]))
