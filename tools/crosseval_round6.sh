#!/bin/bash
cd "$(pwd)"
for s in C01:1 C03:1 C03:2 C04:1 C04:2 C05:1 C06:1 C07:1 C07:2 C08:1 C08:2 C09:1 C10:2 C11:1 C11:2 C12:1 C12:2 C13:1 C13:2 C14:1 C14:2 C15:2 C16:1 C17:2 C18:1 C18:2 C19:2 C20:1 C20:2; do
  c=${s%%:*}; i=${s##*:}
  /venv/bin/python tools/seedeval.py /tmp/seed6_out/$c $c --index-offset 10 --only $i --checks C02,C05,C04,C16,C17,C10,C15,C19,C13,C14,C18,C01,C09 --nostore 2>&1 | tail -1 | cut -c1-400
done
