#!/usr/bin/env python3
"""Re-run every stored seeded change (seeded/<id>/patch.diff) against the current /repo HEAD in scratch worktrees:
tests still pass, demo fails, the property's check reports a violation.  usage: tools/seedcheck.py [--tier quick] [--only C01_1,...] [-j 4]"""
import argparse, json, os, subprocess, sys, time
from concurrent.futures import ThreadPoolExecutor

VERIF = os.path.dirname(os.path.dirname(os.path.abspath(__file__)))


def sh(*a, **k):
    return subprocess.run(a, capture_output=True, text=True, **k)


def one(sid, tier):
    d = os.path.join(VERIF, "seeded", sid)
    prop = sid.split("_")[0]
    meta = json.load(open(os.path.join(d, "meta.json")))
    if meta.get("status") in ("not_adopted", "neutralised"):
        return sid, "skipped:" + meta["status"], {"reason": meta.get("status_reason", "")[:120]}
    checks = meta.get("check_with") or [prop]
    tier = meta.get("tier", tier)       # a change that only the thorough tier catches reliably says so in its meta.json
    wt = f"/tmp/eql_seedcheck_{sid}"
    sh("git", "-C", "/repo", "worktree", "remove", "--force", wt)
    r = sh("git", "-C", "/repo", "worktree", "add", "--detach", wt, "HEAD")
    try:
        if sh("git", "-C", wt, "apply", os.path.join(d, "patch.diff")).returncode != 0:
            return sid, "PATCH_DOES_NOT_APPLY", {}
        env = {**os.environ, "PYTHONPATH": wt + "/src", "PYTHONHASHSEED": "0"}
        t = sh("/venv/bin/python", "-m", "pytest", "-q", "-p", "no:cacheprovider", "--deselect", "test/test_rendering.py", cwd=wt, env=env)
        tests = t.stdout.strip().splitlines()[-1] if t.stdout.strip() else "?"
        demo = sh("/venv/bin/python", os.path.join(d, "demo.py"), cwd=wt, env=env).returncode
        t0 = time.time()
        res = "MISSED"
        for chk in checks:
            c = sh(os.path.join(VERIF, "check"), chk, "--tier", tier,
                   env={**os.environ, "EQL_REPO": wt, "EQL_EVIDENCE_DIR": f"/tmp/eql_seedcheck_ev_{sid}"}, cwd=VERIF)
            res = {0: "MISSED", 1: "caught", 2: "inconclusive"}.get(c.returncode, f"rc={c.returncode}")
            if res == "caught":
                break
        return sid, res, {"tests": tests, "demo_rc": demo, "checks": checks, "seconds": round(time.time() - t0, 1)}
    finally:
        sh("git", "-C", "/repo", "worktree", "remove", "--force", wt)
        sh("rm", "-rf", f"/tmp/eql_seedcheck_ev_{sid}")


def main():
    ap = argparse.ArgumentParser()
    ap.add_argument("--tier", default="quick")
    ap.add_argument("--only", default="")
    ap.add_argument("-j", type=int, default=3)
    a = ap.parse_args()
    ids = sorted(os.listdir(os.path.join(VERIF, "seeded")))
    if a.only:
        ids = [i for i in ids if i in a.only.split(",")]
    bad = 0
    with ThreadPoolExecutor(a.j) as ex:
        for sid, res, info in ex.map(lambda s: one(s, a.tier), ids):
            print(sid, res, info, flush=True)
            if res != "caught" and not res.startswith("skipped:"):
                bad += 1
            mp = os.path.join(VERIF, "seeded", sid, "meta.json")
            meta = json.load(open(mp))
            meta.setdefault("ran", []).append({"check": sid.split("_")[0], "tier": a.tier, "result": res, "at_repo_commit":
                                              sh("git", "-C", "/repo", "rev-parse", "--short", "HEAD").stdout.strip(), **info})
            json.dump(meta, open(mp, "w"), indent=1)
    print(f"{len(ids)} seeded changes, {bad} not caught")
    return 1 if bad else 0


if __name__ == "__main__":
    sys.exit(main())
