#!/bin/bash
# tools/sweep.sh <tier> <seed>...   run every check on /repo for the given seeds, print only the runs that did not hold
tier=$1; shift
cd "$(dirname "$0")/.."
for s in "$@"; do for c in $(./check --list); do
  out=$(VERIF_SEED=$s EQL_EVIDENCE_DIR=/tmp/eql_sweep_ev ./check $c --tier $tier 2>&1); rc=$?
  [ $rc -ne 0 ] && echo "seed=$s $c rc=$rc :: $(echo "$out" | grep -E 'failures by|floors unmet|crashed' | head -3 | cut -c1-300)"
done; done
echo "sweep $tier $* done"
