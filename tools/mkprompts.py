#!/usr/bin/env python3
"""Write one prompt per property for a round of independently seeded changes (see DESIGN 9.4).

usage: tools/mkprompts.py <worktree-prefix> <out-dir> [file with the "where to look this time" paragraph]
       e.g.  tools/mkprompts.py /tmp/s4_ /tmp/seed4_out      (default paragraph: round 4; tools/seed_round5_focus.txt: round 5)
The sub-agent gets the property text, its own scratch worktree <prefix><Cxx> (create them with
`git -C /repo worktree add --detach <dir> HEAD`), the list of mechanisms earlier rounds used (from seeded/*/meta.json)
and nothing from /verif.  Deliveries are evaluated with tools/seedeval.py <out-dir>/<Cxx> <Cxx> --index-offset <n>."""
import glob, json, os, sys

VERIF = os.path.dirname(os.path.dirname(os.path.abspath(__file__)))
AWAY = ("This time look AWAY from the hot evaluation loops that were used before (AND/ElseIf/Comparator `_evaluate__`, the "
        "inverse-operator table, `_optimize_or`, the eager type filter in predicate.py): prefer the less visited code - "
        "hashed_data.py, utils.py, entity.py (argument handling of an/the/a/entity/set_of/let/and_/or_/not_/in_/contains/"
        "flatten/concatenate/for_all), rule.py, conclusion.py, conclusion_selector.py, cache_data.py beyond check/retrieve, the "
        "@symbol/@predicate decorators, Variable/Attribute/Index/Call/Literal classes, the reset/enter/exit plumbing - and "
        "triggers that live in the DATA or the SPELLING (value types such as bool vs int, strings vs sequences, tuples, dicts, "
        "None, NaN, objects with custom __eq__/__hash__/__bool__/__iter__/__getattr__, dataclasses with slots or inheritance, "
        "properties, class attributes, very long domains, generators, nested containers, literals on the left side, chained "
        "method calls, keyword vs positional arguments, more than two operands, three or more alternatives) rather than in the "
        "order of evaluation.\n\n")
RULES = ("NEVER use `git stash` (the stash is shared with other checkouts of this repository and you would collide with other "
         "people); keep copies of your diffs in {OUT} and use `git -C {WT} checkout -- .` / `git -C {WT} apply <file>` instead.\n\n"
         "If, while exploring, you notice that the UNMODIFIED tree already violates the property for some legitimate input, write "
         "a minimal reproduction to {OUT}/baseline_anomaly.py (plus 3 lines of explanation in {OUT}/baseline_anomaly.md) - that is "
         "valuable too, but keep your two seeded changes independent of it. Known and NOT worth reporting again: sharing one "
         "condition object between two queries or using not_() on an expression that is also used elsewhere (aliasing), mutating "
         "the data between two evaluations of one query object, or_ with a variable whose domain / flattened collection is empty, "
         "evaluating two result iterators of queries that share variables concurrently.\n\n")


def main(prefix, outdir, away=None):
    global AWAY
    if away:
        AWAY = open(away).read().strip() + "\n\n"
    tmpl = open(os.path.join(VERIF, "tools", "seed_prompt_template.txt")).read()
    for line in open(os.path.join(VERIF, "properties.jsonl")):
        d = json.loads(line)
        pid = d["id"]
        wt, out = prefix + pid, os.path.join(outdir, pid)
        os.makedirs(out, exist_ok=True)
        ptxt = f"{pid}: {d['title']}\n\nStatement: {d['statement']}\n\nQuantified over: {d['quantifier']['text']}\n"
        mech = []
        for m in sorted(glob.glob(os.path.join(VERIF, "seeded", pid + "_*", "meta.json"))):
            mm = json.load(open(m))
            if mm.get("change"):
                mech.append(f"  - {mm['change']} (needed: {mm.get('needs_to_manifest', '')})")
        extra = ("Earlier attempts already used the mechanisms listed below - do NOT reuse them or close variants; find different "
                 "code sites and different triggering conditions:\n" + "\n".join(mech) + "\n\n" + AWAY + RULES)
        t = tmpl.replace("{PROPERTY}", ptxt)
        t = t.replace("Task: produce TWO different", extra + "Task: produce TWO different")
        t = t.replace("Subtle is better.", "Subtle is better: prefer bugs that depend on data shape and value types, on the spelling "
                      "of the query, on rarely used public API (doc/*.md shows it all), or on two code sites that must both be involved.")
        open(os.path.join(out, "prompt.txt"), "w").write(t.replace("{WT}", wt).replace("{OUT}", out))


if __name__ == "__main__":
    main(*sys.argv[1:4])
