#!/usr/bin/env python3
"""Deliberate property-breaking changes (DESIGN section 6, step 2), applied to a scratch worktree of /repo (never to
/repo itself), each followed by the quick tier of the checks expected to notice.

usage: tools/selfmut.py [--only id,id] [--checks C01,C02] [--tier quick] [--keep]
Mutants are listed in selfmut/mutants.json: {id, file, old, new, checks: [..], note}.
"""
import argparse, json, os, subprocess, sys, shutil, time

VERIF = os.path.dirname(os.path.dirname(os.path.abspath(__file__)))
WT = "/tmp/eql_selfmut_wt"


def sh(*a, **k):
    return subprocess.run(a, capture_output=True, text=True, **k)


def main():
    ap = argparse.ArgumentParser()
    ap.add_argument("--only", default="")
    ap.add_argument("--checks", default="")
    ap.add_argument("--tier", default="quick")
    ap.add_argument("--tests", action="store_true", help="also run the repo's own test suite on each mutant")
    a = ap.parse_args()
    muts = json.load(open(os.path.join(VERIF, "selfmut", "mutants.json")))
    only = set(filter(None, a.only.split(",")))
    if os.path.exists(WT):
        sh("git", "-C", "/repo", "worktree", "remove", "--force", WT)
    r = sh("git", "-C", "/repo", "worktree", "add", "--detach", WT, "HEAD")
    assert r.returncode == 0, r.stderr
    results = []
    try:
        for m in muts:
            if only and m["id"] not in only:
                continue
            path = os.path.join(WT, m["file"])
            src = open(path).read()
            if src.count(m["old"]) != 1:
                print(f"{m['id']}: pattern occurs {src.count(m['old'])} times - SKIPPED")
                results.append((m["id"], "skipped", {}))
                continue
            open(path, "w").write(src.replace(m["old"], m["new"]))
            try:
                line = {}
                if a.tests:
                    t = sh("/venv/bin/python", "-m", "pytest", "-q", "-p", "no:cacheprovider", "-x", "--deselect",
                           "test/test_rendering.py", cwd=WT, env={**os.environ, "PYTHONPATH": WT + "/src"})
                    line["tests"] = t.stdout.strip().splitlines()[-1] if t.stdout.strip() else t.stderr[-200:]
                checks = a.checks.split(",") if a.checks else m["checks"]
                for c in checks:
                    t0 = time.time()
                    r = sh(os.path.join(VERIF, "check"), c, "--tier", a.tier,
                           env={**os.environ, "EQL_REPO": WT, "EQL_EVIDENCE_DIR": "/tmp/eql_selfmut_evidence"}, cwd=VERIF)
                    line[c] = {0: "MISSED", 1: "caught", 2: "inconclusive"}.get(r.returncode, f"rc={r.returncode}")
                    if r.returncode not in (0, 1, 2):
                        line[c] += " " + (r.stdout + r.stderr)[-300:]
                print(m["id"], line, flush=True)
                results.append((m["id"], "ran", line))
            finally:
                open(path, "w").write(src)
    finally:
        sh("git", "-C", "/repo", "worktree", "remove", "--force", WT)
        shutil.rmtree("/tmp/eql_selfmut_evidence", ignore_errors=True)
    equiv = {m["id"] for m in muts if m.get("equivalent")}
    missed = [(i, l) for i, s, l in results if s == "ran" and i not in equiv and not any(v == "caught" for k, v in l.items() if k != "tests")]
    print(f"\n{len(results)} mutants, {len(missed)} not caught by any listed check: {[i for i, _ in missed]}")
    return 1 if missed else 0


if __name__ == "__main__":
    sys.exit(main())
