#!/usr/bin/env python3
"""Evaluate a seeded change delivered by a sub-agent, in a scratch worktree of /repo (never in /repo itself).

usage: tools/seedeval.py <out_dir> <prop> [--checks C01,C03] [--tier quick] [--keep-as <name>]
For each patch{i}.diff in <out_dir>: confirm (a) demo passes on the clean tree, (b) patch applies, (c) the repository's own
tests still pass, (d) demo fails with the patch; then run the listed checks (default: the property's own check) against
the patched worktree and report caught / missed.  Confirmed changes are stored under /verif/seeded/<prop>_<i>/.
"""
import argparse, json, os, shutil, subprocess, sys, time

VERIF = os.path.dirname(os.path.dirname(os.path.abspath(__file__)))


def sh(*a, **k):
    return subprocess.run(a, capture_output=True, text=True, **k)


def main():
    ap = argparse.ArgumentParser()
    ap.add_argument("out_dir")
    ap.add_argument("prop")
    ap.add_argument("--checks", default="")
    ap.add_argument("--tier", default="quick")
    ap.add_argument("--only", default="")
    ap.add_argument("--nostore", action="store_true")
    ap.add_argument("--index-offset", type=int, default=0)
    a = ap.parse_args()
    wt = f"/tmp/eql_seedeval_{a.prop}_{os.getpid()}"
    sh("git", "-C", "/repo", "worktree", "remove", "--force", wt)
    r = sh("git", "-C", "/repo", "worktree", "add", "--detach", wt, "HEAD")
    assert r.returncode == 0, r.stderr
    env = {**os.environ, "PYTHONPATH": wt + "/src", "PYTHONHASHSEED": "0"}
    try:
        i = 0
        while True:
            i += 1
            patch = os.path.join(a.out_dir, f"patch{i}.diff")
            demo = os.path.join(a.out_dir, f"demo{i}.py")
            if not os.path.exists(patch):
                break
            if a.only and str(i) not in a.only.split(","):
                continue
            meta = {"property": a.prop, "index": i, "ran": []}
            sh("git", "-C", wt, "checkout", "--", ".")
            d0 = sh("/venv/bin/python", demo, cwd=wt, env=env)
            meta["demo_clean_rc"] = d0.returncode
            ap_ = sh("git", "-C", wt, "apply", patch)
            if ap_.returncode != 0:
                print(f"{a.prop}#{i}: patch does not apply: {ap_.stderr[:300]}")
                continue
            t = sh("/venv/bin/python", "-m", "pytest", "-q", "-p", "no:cacheprovider", "--deselect", "test/test_rendering.py", cwd=wt, env=env)
            meta["tests"] = t.stdout.strip().splitlines()[-1] if t.stdout.strip() else t.stderr[-200:]
            d1 = sh("/venv/bin/python", demo, cwd=wt, env=env)
            meta["demo_patched_rc"] = d1.returncode
            meta["demo_patched_out"] = (d1.stdout + d1.stderr)[-400:]
            confirmed = d0.returncode == 0 and d1.returncode != 0 and "70 passed" in meta["tests"]
            meta["confirmed"] = confirmed
            checks = a.checks.split(",") if a.checks else [a.prop]
            res = {}
            for c in checks:
                t0 = time.time()
                r = sh(os.path.join(VERIF, "check"), c, "--tier", a.tier,
                       env={**os.environ, "EQL_REPO": wt, "EQL_EVIDENCE_DIR": f"/tmp/eql_seedeval_ev_{os.getpid()}"}, cwd=VERIF)
                res[c] = {0: "MISSED", 1: "caught", 2: "inconclusive"}.get(r.returncode, f"rc={r.returncode}")
                kinds = [l for l in r.stdout.splitlines() if "failures by" in l]
                meta["ran"].append({"check": c, "tier": a.tier, "result": res[c], "seconds": round(time.time() - t0, 1),
                                    "failures": kinds[-1][:300] if kinds else ""})
            print(f"{a.prop}#{i}: confirmed={confirmed} tests='{meta['tests']}' demo clean rc={d0.returncode} patched rc={d1.returncode} checks={res}", flush=True)
            if confirmed and not a.nostore:
                dst = os.path.join(VERIF, "seeded", f"{a.prop}_{i + a.index_offset}")
                os.makedirs(dst, exist_ok=True)
                shutil.copy(patch, os.path.join(dst, "patch.diff"))
                shutil.copy(demo, os.path.join(dst, "demo.py"))
                notes = os.path.join(a.out_dir, f"notes{i}.md")
                if os.path.exists(notes):
                    shutil.copy(notes, os.path.join(dst, "notes.md"))
                old = {}
                mp = os.path.join(dst, "meta.json")
                if os.path.exists(mp):
                    old = json.load(open(mp))
                runs = old.get("ran", []) + meta["ran"]
                meta["ran"] = runs
                meta["breaks_property"] = a.prop
                meta["base_commit"] = sh("git", "-C", "/repo", "rev-parse", "--short", "HEAD").stdout.strip()
                json.dump(meta, open(mp, "w"), indent=1)
    finally:
        sh("git", "-C", "/repo", "worktree", "remove", "--force", wt)
        shutil.rmtree(f"/tmp/eql_seedeval_ev_{os.getpid()}", ignore_errors=True)


if __name__ == "__main__":
    main()
