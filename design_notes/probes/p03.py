import random, sys
from dataclasses import dataclass
from collections import Counter
import p01
from p01 import *
from entity_query_language import predicate, Predicate, HasType

@predicate
def fbig(x, k):
    return x.a > k

@dataclass(eq=False)
class CBig(Predicate):
    x: object
    k: int
    def __call__(self): return self.x.a > self.k

_old_leaf = p01.gen_leaf
def gen_leaf(rng):
    k=rng.random()
    if k<0.2: return ('fbig', rng.randint(0,3))
    if k<0.4: return ('cbig', rng.randint(0,3))
    return _old_leaf(rng)
p01.gen_leaf = gen_leaf
_pe = p01.pe; _se = p01.se
def pe(c,o):
    if c[0] in ('fbig','cbig'): return o.a > c[1]
    if c[0]=='and': return pe(c[1],o) and pe(c[2],o)
    if c[0]=='or': return pe(c[1],o) or pe(c[2],o)
    if c[0]=='not': return not pe(c[1],o)
    return _pe(c,o)
def se(c,x):
    if c[0]=='fbig': return fbig(x, c[1])
    if c[0]=='cbig': return CBig(x, c[1])
    if c[0]=='and': return and_(se(c[1],x),se(c[2],x))
    if c[0]=='or': return or_(se(c[1],x),se(c[2],x))
    if c[0]=='not': return not_(se(c[1],x))
    return _se(c,x)
p01.pe = pe; p01.se = se
if __name__=='__main__':
    depth=int(sys.argv[1]); N=int(sys.argv[2])
    cnt=Counter(); shown=Counter()
    for seed in range(N):
        r = p01.run(seed, depth, 5, False)
        if r:
            cnt[r[0]]+=1
            if shown[r[0]]<6:
                shown[r[0]]+=1; print(seed, r)
    print(cnt, 'of', N)
