from dataclasses import dataclass
from entity_query_language import *
from entity_query_language.symbolic import in_symbolic_mode, rule_mode, _symbolic_mode, SymbolicExpression
import gc
@symbol
@dataclass(eq=False)
class B:
    n: int
bs=[B(1),B(2),B(3)]
def mkq():
    with symbolic_mode():
        x=let(B,bs); return an(entity(x, x.n>0))
print('start', _symbolic_mode.get())
# scenario 1: advance inside block
q=mkq()
with symbolic_mode():
    it=q.evaluate(); next(it)
    print('S1 inside block after next:', _symbolic_mode.get(), type(B(5)).__name__)
print('S1 after block:', _symbolic_mode.get())
it.close()
print('S1 after close outside:', _symbolic_mode.get(), type(B(5)).__name__)
from entity_query_language.symbolic import _set_symbolic_mode
_set_symbolic_mode(None)
# scenario 2: create outside, advance outside, close inside block
q=mkq()
it=q.evaluate(); next(it)
with symbolic_mode():
    it.close()
    print('S2 inside block after close:', _symbolic_mode.get())
print('S2 after block', _symbolic_mode.get())
# scenario 3: advance outside, drop inside rule block
q=mkq(); it=q.evaluate(); next(it)
with rule_mode():
    del it; gc.collect()
    print('S3 inside rule block after drop:', _symbolic_mode.get())
print('S3 after', _symbolic_mode.get())
# scenario 4: exception inside block
try:
    with symbolic_mode():
        raise KeyError
except KeyError: pass
print('S4', _symbolic_mode.get())
# scenario 5: with query: stack
q=mkq()
try:
    with symbolic_mode(q):
        print('S5 stack', len(SymbolicExpression._symbolic_expression_stack_))
        raise KeyError
except KeyError: pass
print('S5 after', len(SymbolicExpression._symbolic_expression_stack_), _symbolic_mode.get())
# scenario 6: full drain inside block
q=mkq()
with symbolic_mode():
    r=list(q.evaluate())
    print('S6 inside after drain', _symbolic_mode.get())
print('S6 after', _symbolic_mode.get())
# scenario 7: the operators outside
x = None
with symbolic_mode():
    x = let(B,bs)
try:
    x.n
    print('S7 attr allowed outside!')
except AttributeError as e: print('S7 rejected')
try:
    x == 1
    print('S7 eq ->', type(x==1).__name__)
except AttributeError as e: print('S7 eq rejected')
