import random, sys, itertools
from collections import Counter
import p02
from p02 import *
from entity_query_language import for_all
# vars: xs[0]=universal u (kind), xs[1..]=free
def run(seed, nfree, depth, extra):
    rng=random.Random(seed)
    ps=[P(rng.randint(1,3),rng.randint(1,3)) for _ in range(rng.randint(1,3))]
    qs=[Q(rng.randint(1,3),rng.choice(ps)) for _ in range(rng.randint(1,3))]
    kinds=[rng.choice('PQ') for _ in range(1+nfree)]
    doms=[ps if k=='P' else qs for k in kinds]
    c=gen(rng,kinds,depth,rng.random()<0.3)
    e=gen(rng,['X']+kinds[1:],1,False) if extra else None  # extra cond on free vars only
    if e and 0 in mentioned(e): return None
    free=list(range(1,1+nfree))
    exp=set()
    for f in itertools.product(*doms[1:]):
        if all(pe(c,(u,)+f) for u in doms[0]) and (e is None or pe(e,(None,)+f)):
            exp.add(tuple(map(id,f)))
    try:
        with symbolic_mode():
            xs=[let(P if k=='P' else Q,d) for k,d in zip(kinds,doms)]
            cond=for_all(xs[0], se(c,xs))
            if e: cond = and_(cond, se(e,xs)) if rng.random()<0.5 else and_(se(e,xs),cond)
            q=an(set_of(xs[1:], cond))
        got=set(tuple(id(r[x]) for x in xs[1:]) for r in q.evaluate())
    except Exception as ex:
        import traceback
        return ('EXC',type(ex).__name__,str(ex)[:80], c, sorted(mentioned(c)))
    if got!=exp: return ('SET:%s%s'%('M' if exp-got else '','X' if got-exp else ''), kinds, c, e, len(exp),len(got),'ment',sorted(mentioned(c)))
if __name__=='__main__':
    nfree=int(sys.argv[1]); depth=int(sys.argv[2]); N=int(sys.argv[3]); extra=sys.argv[4]=='1'
    cnt=Counter(); shown=Counter()
    for s in range(N):
        r=run(s,nfree,depth,extra)
        if r:
            key=(r[0], tuple(r[-1]) if r[0]!='EXC' else r[1])
            cnt[key]+=1
            if shown[key]<2: shown[key]+=1; print(s,r)
    print(cnt)
