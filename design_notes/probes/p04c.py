import random, sys, itertools, gc
from collections import Counter
import p02
from p02 import *
from entity_query_language import the, entity, predicate
class Boom(Exception): pass
st={'n':0,'at':None}
@predicate
def okp(x):
    st['n']+=1
    if st['at'] is not None and st['n']==st['at']: raise Boom()
    return True
def run(seed, dup=False):
    rng=random.Random(seed)
    ps=[P(rng.randint(1,3),rng.randint(1,3)) for _ in range(rng.randint(2,4))]
    qs=[Q(rng.randint(1,3),rng.choice(ps)) for _ in range(rng.randint(2,4))]
    if dup: ps=ps+[rng.choice(ps)]; qs=qs+[qs[0]]
    kinds=['P','Q']; doms=[list(ps),list(qs)]
    snap=[list(d) for d in doms]; osnap=[(o,dict(vars(o))) for o in ps+qs]
    with symbolic_mode():
        xs=[let(P,doms[0]),let(Q,doms[1])]
        pool=[]
        for i in range(3):
            c=gen(rng,kinds,2,True)
            sel=rng.choice([[0],[1],[0,1]])
            cond=se(c,xs)
            if rng.random()<0.4: cond=and_(cond, okp(xs[sel[0]]))
            pool.append((an(set_of([xs[j] for j in sel], cond)), sel, c))
    def rows(q,sel): return set(tuple(id(r[xs[j]]) for j in sel) for r in q.evaluate())
    exp=[set(tuple(id(a[j]) for j in sel) for a in itertools.product(*doms) if pe(c,a)) for q,sel,c in pool]
    first=[None]*3
    keep=[]; hist=[]
    for step in range(8):
        i=rng.randrange(3); q,sel,c=pool[i]
        op=rng.choice(['full','take','abandon','boom','drop'])
        hist.append((op,i))
        st['at']=None; st['n']=0
        try:
            if op=='full':
                got=rows(q,sel)
                if got!=exp[i]: return ('WRONG', hist, len(exp[i]), len(got), dup)
            elif op in ('take','abandon','drop'):
                it=q.evaluate()
                for _ in range(rng.randint(1,3)):
                    try: next(it)
                    except StopIteration: break
                if op=='take': it.close()
                elif op=='abandon': keep.append(it)
                else: del it; gc.collect()
            elif op=='boom':
                st['at']=rng.randint(1,3)
                try: rows(q,sel)
                except Boom: pass
        except Exception as e:
            import traceback
            return ('EXC',type(e).__name__,str(e)[:80],hist, traceback.format_exc().splitlines()[-3:])
    st['at']=None
    for i,(q,sel,c) in enumerate(pool):
        got=rows(q,sel)
        if got!=exp[i]: return ('WRONG_FINAL', hist, i, len(exp[i]), len(got))
    if [list(d) for d in doms]!=snap or any(d is not dd for d,dd in zip(doms,doms)): return ('DOMAIN_MUTATED',)
    if any(dict(vars(o))!=s for o,s in osnap): return ('OBJ_MUTATED',)
if __name__=='__main__':
    N=int(sys.argv[1]); dup=len(sys.argv)>2
    cnt=Counter(); ex=[]
    for s in range(N):
        r=run(s,dup)
        if r:
            cnt[r[0]]+=1
            if len(ex)<3: ex.append((s,r))
    print(dict(cnt),'of',N); [print('  ',e) for e in ex]
