from dataclasses import dataclass, field
from entity_query_language import *
from entity_query_language.symbolic import Variable
@symbol
@dataclass(eq=False)
class B:
    name: str
    size: int = 1
@symbol
@dataclass(eq=False)
class H(B): pass
@dataclass(eq=False)
class H2(H): pass     # undecorated subclass
@symbol
@dataclass(eq=False)
class C:
    parent: B
    child: B
    w: int = 0
class Other:
    name='x'; size=1
bs=[B('a',1),H('b',2),H2('c',1),B('b',1),H('a',1)]
cs=[C(bs[0],bs[1],0),C(bs[1],bs[2],1),C(bs[3],bs[4],0),C(bs[0],bs[4],1)]
mixed=bs+[Other(),cs[0], 5, None]
def ids(l): return [mixed.index(o) if o in mixed else cs.index(o)+100 for o in l]
def t(label, f, exp):
    try:
        with symbolic_mode(): q=f()
        got=list(q.evaluate())
        print(label, 'OK' if [id(o) for o in got]==[id(o) for o in exp] else ('DIFF got %s exp %s'%(ids(got),ids(exp))))
    except Exception as e:
        print(label,'EXC',type(e).__name__,str(e)[:100])
t('kw name', lambda: an(entity(B(From(mixed), name='a'))), [o for o in bs if o.name=='a'])
t('pos name', lambda: an(entity(B(From(mixed), 'a'))), [o for o in bs if o.name=='a'])
t('pos name,size', lambda: an(entity(B(From(mixed), 'b', 2))), [o for o in bs if o.name=='b' and o.size==2])
t('pos+kw', lambda: an(entity(B(From(mixed), 'b', size=1))), [o for o in bs if o.name=='b' and o.size==1])
t('type filter H', lambda: an(entity(H(From(mixed)))), [o for o in bs if isinstance(o,H)])
t('type filter let H', lambda: an(entity(let(H, mixed))), [o for o in bs if isinstance(o,H)])
t('type filter B bare', lambda: B(From(mixed)), bs)
t('nested kw', lambda: an(entity(C(From(cs), parent=B(From(bs), name='a')))), [c for c in cs if c.parent.name=='a'])
t('nested pos', lambda: an(entity(C(From(cs), B(From(bs), 'a')))), [c for c in cs if c.parent.name=='a'])
t('nested 2', lambda: an(entity(C(From(cs), parent=B(From(bs), name='a'), child=H(From(bs), size=1)))), [c for c in cs if c.parent.name=='a' and isinstance(c.child,H) and c.child.size==1])
t('var value', lambda: (lambda x: an(entity(C(From(cs), parent=x), x.size==1)))(let(B,bs)), [c for c in cs if c.parent.size==1])
t('const falsy kw w=0', lambda: an(entity(C(From(cs), w=0))), [c for c in cs if c.w==0])
t('generator domain', lambda: an(entity(B(From(o for o in mixed), name='a'))), [o for o in bs if o.name=='a'])
t('tuple domain', lambda: an(entity(H(From(tuple(mixed))))), [o for o in bs if isinstance(o,H)])
t('single obj domain', lambda: an(entity(B(From(bs[0])))), [bs[0]])
t('let single', lambda: an(entity(let(B, bs[1]))), [bs[1]])
