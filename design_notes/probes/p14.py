from dataclasses import dataclass, field
from entity_query_language import *
from entity_query_language.entity import infer
from entity_query_language.symbolic import Variable, rule_mode
inits=[]
@symbol
@dataclass(eq=False)
class A:
    n: int = 0
    def __post_init__(self): inits.append(('A',self.n))
@dataclass(eq=False)
class A1(A):       # undecorated subclass
    m: int = 5
@symbol
@dataclass(eq=False)
class A2(A):
    pass
@symbol
class H:           # hand-written init
    def __init__(self, v, w=3):
        inits.append(('H',v)); self.v=v; self.w=w
class H1(H):
    def __init__(self, v):
        super().__init__(v, 9)
@symbol
@dataclass(eq=False)
class W:
    a: A
log={A:[],H:[],W:[]}
def mk(cls,*a,**k):
    o=cls(*a,**k)
    for base in log:
        if isinstance(o,base): log[base].append(o)
    return o
def q(T):
    with symbolic_mode(): qq=an(entity(let(T)))
    return list(qq.evaluate())
def chk(label):
    for T in (A,A1,A2,H,H1,W):
        try:
            got=q(T)
            exp=[o for base in log for o in log[base] if isinstance(o,T)]
            ok = sorted(map(id,got))==sorted(map(id,exp))
            print(label,T.__name__, 'OK' if ok else 'DIFF got=%d exp=%d dup=%s'%(len(got),len(exp),len(got)!=len(set(map(id,got)))))
        except Exception as e: print(label,T.__name__,'EXC',type(e).__name__,str(e)[:90])
chk('empty')
mk(A); mk(A,1); mk(A,n=2); mk(A1,3); mk(A1,n=4,m=1); mk(A2,5); mk(H,1); mk(H,2,w=4); mk(H1,7)
chk('after-concrete')
n_inits=len(inits)
with symbolic_mode():
    s1=A(); s2=A(n=3); s3=H(v=1); s4=A1(n=3)
print('symbolic constructed types', type(s1).__name__, type(s2).__name__, type(s3).__name__, type(s4).__name__, 'inits run:', len(inits)-n_inits)
chk('after-symbolic')
# inference creates instances
with rule_mode():
    x=let(A)
    r=infer(entity(W(a=x), x.n>3))
ws=list(r.evaluate())
for w in ws: log[W].append(w)
print('inferred', len(ws))
chk('after-infer')
for c in Variable._cache_.values(): c.clear()
Variable._cache_.clear()
for k in log: log[k].clear()
chk('after-clear')
mk(A,1)
chk('after-clear+1')
