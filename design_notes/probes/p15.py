import random, sys, itertools
from collections import Counter
import p02
from p02 import *
from entity_query_language import entity
def run(seed, conn, pos):
    rng=random.Random(seed)
    ps=[P(rng.randint(1,3),rng.randint(1,3)) for _ in range(rng.randint(2,4))]
    qs=[Q(rng.randint(1,3),rng.choice(ps)) for _ in range(rng.randint(2,4))]
    kinds=['P','Q']; doms=[ps,qs]
    c1=gen(rng,kinds,1,False); c2=gen(rng,kinds,1,False)
    try:
        with symbolic_mode():
            xs=[let(P,ps),let(Q,qs)]
            if pos=='cond':
                # sub-queries as conditions
                k1=rng.choice(['ent0','ent1','set'])
                def sq(c):
                    k=rng.choice(['ent0','ent1','set'])
                    if k=='ent0': return an(entity(xs[0], se(c,xs)))
                    if k=='ent1': return an(entity(xs[1], se(c,xs)))
                    return an(set_of(xs, se(c,xs)))
                s1,s2=sq(c1),sq(c2)
                comp = (s1 & s2) if conn=='and' else (s1 | s2)
                q=an(set_of(xs, comp))
                f = (lambda a: pe(c1,a) and pe(c2,a)) if conn=='and' else (lambda a: pe(c1,a) or pe(c2,a))
            elif pos=='operand':
                # sub-query as comparison operand: xs[1].p == an(entity(p, c1(p)))   (c1 over P only)
                c1=gen(rng,['P'],1,False)
                y=let(P,ps)
                sub=an(entity(y, se(c1,[y])))
                q=an(set_of([xs[1]], xs[1].p == sub))
                exp=set((id(qq),) for qq in qs if any(qq.p is pp and pe(c1,(pp,)) for pp in ps))
                got=set((id(r[xs[1]]),) for r in q.evaluate())
                return None if got==exp else ('OPERAND', c1, len(exp), len(got))
        got=set(tuple(id(r[x]) for x in xs) for r in q.evaluate())
    except Exception as ex:
        import traceback
        return ('EXC',type(ex).__name__,str(ex)[:100], traceback.format_exc().splitlines()[-3:])
    exp=set(tuple(map(id,a)) for a in itertools.product(*doms) if f(a))
    if got!=exp: return ('SET:%s%s'%('M' if exp-got else '','X' if got-exp else ''), c1,c2,len(exp),len(got))
if __name__=='__main__':
    N=int(sys.argv[1])
    for conn,pos in (('and','cond'),('or','cond'),('-','operand')):
        cnt=Counter(); ex=[]
        for s in range(N):
            r=run(s,conn,pos)
            if r:
                cnt[r[0]]+=1
                if len(ex)<2: ex.append((s,r))
        print(conn,pos,dict(cnt)); [print('   ',e) for e in ex]
