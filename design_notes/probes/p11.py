import random, sys, itertools
from dataclasses import dataclass
from collections import Counter
import p02
from p02 import *
from entity_query_language.entity import infer
from entity_query_language.symbolic import rule_mode
@symbol
@dataclass(eq=False)
class V:
    f1: object
    f2: object = None
    f3: object = None
@symbol
@dataclass(eq=False)
class W:
    v: V
    g: object = None
MODE={'conj':False}
def run(seed, nv, depth, nested=False, quant='infer'):
    rng=random.Random(seed)
    ps=[P(rng.randint(1,3),rng.randint(1,3)) for _ in range(rng.randint(1,3))]
    qs=[Q(rng.randint(1,3),rng.choice(ps)) for _ in range(rng.randint(1,3))]
    kinds=[rng.choice('PQ') for _ in range(nv)]
    doms=[ps if k=='P' else qs for k in kinds]
    c=gen(rng,kinds,depth,True)
    if MODE['conj']:
        def hasor(c): return c[0] in ('or','not') or (c[0]=='and' and (hasor(c[1]) or hasor(c[2])))
        if hasor(c) or mentioned(c)!=set(range(nv)): return None
    # head fields: f1 = var0 (object), f2 = attr expr or const, f3 = var_last or const
    f2=gen_val(rng,kinds); f3=('v',nv-1,()) 
    heads=[('v',0,()), f2, f3]
    # ensure all vars mentioned in head
    hm={h[1] for h in heads if h[0]=='v'}
    if hm!=set(range(nv)): return None
    exp=Counter()
    for asg in itertools.product(*doms):
        if pe(c,asg):
            vals=tuple(pv(h,asg) for h in heads)
            exp[tuple(id(v) if not isinstance(v,int) else ('i',v) for v in vals)]+=1
    try:
        with rule_mode():
            xs=[let(P if k=='P' else Q,d) for k,d in zip(kinds,doms)]
            hv=[sv(h,xs) for h in heads]
            if nested: head=W(v=V(f1=hv[0],f2=hv[1],f3=hv[2]), g=hv[0])
            else: head=V(f1=hv[0],f2=hv[1],f3=hv[2])
            q=infer(entity(head, se(c,xs)))
        res=list(q.evaluate())
    except Exception as e:
        import traceback
        return ('EXC',type(e).__name__,str(e)[:100],c, traceback.format_exc().splitlines()[-5:])
    got=Counter()
    for o in res:
        if nested:
            if type(o) is not W or type(o.v) is not V or o.g is not o.v.f1: return ('BADOBJ',type(o).__name__)
            o=o.v
        if type(o) is not V: return ('BADTYPE',type(o).__name__)
        got[tuple(id(v) if not isinstance(v,int) else ('i',v) for v in (o.f1,o.f2,o.f3))]+=1
    if len(set(map(id,res)))!=len(res): return ('SAMEOBJ',)
    if got==exp: return ('OK',)
    if got!=exp: return ('CNT:%s%s'%('M' if exp-got else '','X' if got-exp else ''), kinds, heads, c, sum(exp.values()), sum(got.values()))
if __name__=='__main__':
    nv=int(sys.argv[1]); depth=int(sys.argv[2]); N=int(sys.argv[3]); nested=sys.argv[4]=='1'; MODE['conj']=len(sys.argv)>5
    cnt=Counter(); shown=Counter(); ran=0
    for s in range(N):
        r=run(s,nv,depth,nested)
        if r is None: continue
        ran+=1
        if r[0]!='OK':
            cnt[r[0]]+=1
            if shown[r[0]]<3: shown[r[0]]+=1; print(s,r)
    print(cnt, 'of', ran)
