import random, sys
from collections import Counter
from entity_query_language.cache_data import IndexedCache
from entity_query_language.hashed_data import HashedValue
WILD='*'
def canon(r,o): return (frozenset((k,id(v)) for k,v in r.items()), o)
def spec(model, keys, l):
    exp=Counter()
    for mb,mo in model:
        if all(l[k]==v for k,v in mb.items() if k in l):
            m=dict(l); m.update(mb); exp[canon(m,mo)]+=1
    return exp
def deviant(model, keys, l):
    # trie walk with hiding rules
    keys=sorted(keys)
    out=Counter()
    def rec(entries, idx, res):
        if idx==len(keys):
            for mb,mo in entries[-1:]: out[canon(res,mo)]+=1   # same full path => last write wins
            return
        k=keys[idx]
        groups={}
        for e in entries: groups.setdefault(id(e[0][k]) if k in e[0] else WILD, []).append(e)
        if k in l:
            cid=id(l[k])
            if cid in groups: rec(groups[cid], idx+1, res)            # concrete hides wildcard
            elif WILD in groups: rec(groups[WILD], idx+1, res)
        else:
            if WILD in groups: rec(groups[WILD], idx+1, res)          # wildcard hides concrete
            else:
                for g,es in groups.items():
                    r=dict(res); r[k]=es[0][0][k]; rec(es, idx+1, r)
    if model: rec(model,0,dict(l))
    return out
def run(seed,nkeys,alpha,nops,full_only=False):
    rng=random.Random(seed)
    keys=rng.sample(range(1,20),nkeys)
    vals={k:[HashedValue(('v',k,i)) for i in range(alpha)] for k in keys}
    c=IndexedCache(keys); model=[]
    st=Counter()
    for step in range(nops):
        ks=[k for k in keys if full_only or rng.random()<0.7] or [rng.choice(keys)]
        b={k:rng.choice(vals[k]) for k in ks}; out=('out',step)
        c.insert(dict(b),out); model=[(mb,mo) for mb,mo in model if mb!=b]+[(b,out)]
        for _ in range(3):
            l={k:rng.choice(vals[k]) for k in keys if rng.random()<0.6}
            if rng.random()<0.3: l[99]=HashedValue('extra')
            lkk={k:v for k,v in l.items() if k in keys}
            if lkk:
                e=any(all(k in lkk and lkk[k]==v for k,v in mb.items()) for mb,_ in model)
                if e!=c.check(dict(l)): st['CHECK']+=1
            try: got=Counter(canon(r,o) for r,o in c.retrieve(dict(l)))
            except Exception as ex: st['EXC:'+type(ex).__name__]+=1; continue
            s=spec(model,keys,l)
            if got==s: st['ok']+=1
            elif got==deviant(model,keys,l): st['known']+=1
            else:
                st['OTHER']+=1
                if st['OTHER']<2: print('OTHER',seed,[ (sorted((k,v.value) for k,v in mb.items()),mo) for mb,mo in model], sorted((k,v.value) for k,v in l.items()), '\n got',sorted(map(str,got.items())),'\n dev',sorted(map(str,deviant(model,keys,l).items())),'\n spec',sorted(map(str,s.items())))
    return st
if __name__=='__main__':
    N=int(sys.argv[1]); nkeys=int(sys.argv[2]); nops=int(sys.argv[3]); fo=len(sys.argv)>4
    tot=Counter()
    for s in range(N): tot+=run(s,nkeys,2,nops,fo)
    print(tot)
