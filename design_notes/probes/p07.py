import random, sys
from collections import Counter
import p01
from p01 import *
class LogIter:
    def __init__(self, items): self.items=items; self.i=0; self.log=[]
    def __iter__(self): return self
    def __next__(self):
        if self.i>=len(self.items): self.log.append('END'); raise StopIteration
        o=self.items[self.i]; self.i+=1; self.log.append(self.i-1); return o
def run(seed, depth, how):
    rng=random.Random(seed)
    dom=mk(rng, 6); c=gen(rng,depth)
    qual=[i for i,o in enumerate(dom) if pe(c,o)]
    li=LogIter(dom)
    with symbolic_mode():
        if how=='let': x=let(Item, li)
        else: x=Item(From(li))
        q=an(entity(x, se(c,x)))
    if li.log: return ('EAGER_BUILD', li.log)
    it=q.evaluate()
    if li.log: return ('EAGER_EVALUATE_CALL', li.log)
    # random history of partial/full evaluations
    hi=0
    for round in range(3):
        it=q.evaluate()
        k=rng.randint(0,len(qual)+1)
        got=[]
        for j in range(k):
            try: o=next(it)
            except StopIteration:
                hi=len(dom); break
            got.append(dom.index(o))
            pulled=[e for e in li.log if e!='END']
            if len(pulled)!=len(set(pulled)): return ('REPULL', round, li.log)
            need = qual[j]+1 if j<len(qual) else len(dom)
            hi=max(hi,need)
            if max(pulled,default=-1)+1 != hi: return ('OVERPULL', round, j, c, li.log, qual)
            if got!=qual[:len(got)]: return ('WRONG', round, got, qual, c)
        it.close()
    pulled=[e for e in li.log if e!='END']
    if len(pulled)!=len(set(pulled)): return ('REPULL', li.log)
if __name__=='__main__':
    depth=int(sys.argv[1]); N=int(sys.argv[2]); how=sys.argv[3]
    cnt=Counter(); shown=Counter()
    for s in range(N):
        r=run(s,depth,how)
        if r:
            cnt[r[0]]+=1
            if shown[r[0]]<3: shown[r[0]]+=1; print(s,r)
    print(cnt)
