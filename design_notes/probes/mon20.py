# runtime monitor: wrap IndexedCache.retrieve, compare against spec-correct walk of the same nested dict
from entity_query_language.cache_data import IndexedCache, CacheDict
from entity_query_language.utils import All
events=[]
orig = IndexedCache.retrieve
def spec_walk(self, assignment):
    keys=self.keys
    out=[]
    def rec(node, idx, res):
        if idx==len(keys):
            out.append((res,node)); return
        k=keys[idx]
        if not isinstance(node, CacheDict): return
        for ck,cv in node.items():
            if ck is All:
                rec(cv, idx+1, res)
            elif k in assignment:
                if assignment[k]==ck: rec(cv, idx+1, res)
            else:
                r=dict(res); r[k]=ck; rec(cv, idx+1, r)
    if keys: rec(self.cache,0,dict(assignment))
    return out
def wrapped(self, assignment=None, cache=None, key_idx=0, result=None, from_index=True):
    if cache is None and from_index and self.keys:
        got=list(orig(self, assignment, cache, key_idx, result, from_index))
        exp=spec_walk(self, assignment)
        g=sorted((sorted((k,v.id_) for k,v in r.items()), repr(o)) for r,o in got)
        e=sorted((sorted((k,v.id_) for k,v in r.items()), repr(o)) for r,o in exp)
        if g!=e:
            events.append((len(g),len(e)))
        yield from got
    else:
        yield from orig(self, assignment, cache, key_idx, result, from_index)
IndexedCache.retrieve = wrapped
