import random, sys, itertools
from collections import Counter
import p02
from p02 import *
from entity_query_language import predicate

class Boom(Exception): pass
calls = {'n':0,'boom_at':None}
@predicate
def okp(x):
    calls['n']+=1
    if calls['boom_at'] is not None and calls['n']==calls['boom_at']:
        raise Boom()
    return True

def build(rng, cache=True, nv=int(__import__("os").environ.get("NV","2")), depth=int(__import__("os").environ.get("DEPTH","2")), with_pred=False):
    ps = [P(rng.randint(1,3), rng.randint(1,3)) for _ in range(rng.randint(2,4))]
    qs = [Q(rng.randint(1,3), rng.choice(ps)) for _ in range(rng.randint(2,4))]
    kinds = [rng.choice('PQ') for _ in range(nv)]
    doms = [ps if k=='P' else qs for k in kinds]
    c = gen(rng, kinds, depth, True)
    sel = list(range(nv))
    exp = set(tuple(id(asg[i]) for i in sel) for asg in itertools.product(*doms) if pe(c,asg))
    with symbolic_mode():
        xs = [let(P if k=='P' else Q, d) for k,d in zip(kinds,doms)]
        cond = se(c,xs)
        if with_pred: cond = and_(cond, okp(xs[0]))
        q = an(set_of([xs[i] for i in sel], cond))
    return q, xs, sel, exp, c, kinds

def rows(q,xs,sel): return set(tuple(id(r[xs[i]]) for i in sel) for r in q.evaluate())

def run(seed, mode):
    rng = random.Random(seed)
    q,xs,sel,exp,c,kinds = build(rng, with_pred=(mode=='boom'))
    calls['boom_at']=None; calls['n']=0
    try:
        if mode=='full':
            rows(q,xs,sel)
        elif mode=='partial':
            k = rng.randint(1,3)
            it = q.evaluate()
            for _ in range(k):
                try: next(it)
                except StopIteration: break
            it.close()
        elif mode=='partial_noclose':
            k = rng.randint(1,3)
            it = q.evaluate()
            for _ in range(k):
                try: next(it)
                except StopIteration: break
            run.keep.append(it)
        elif mode=='boom':
            calls['boom_at']=rng.randint(1,4)
            try: rows(q,xs,sel)
            except Boom: pass
            calls['boom_at']=None
        got = rows(q,xs,sel)
    except Exception as e:
        import traceback
        return ('EXC', repr(e)[:100], c, traceback.format_exc().splitlines()[-4:])
    if got!=exp:
        return ('SET:%s%s'%('M' if exp-got else '','X' if got-exp else ''), kinds, c, len(exp), len(got))
run.keep=[]
if __name__=='__main__':
    mode=sys.argv[1]; N=int(sys.argv[2])
    cnt=Counter(); shown=Counter()
    for s in range(N):
        r=run(s,mode)
        if r:
            cnt[r[0]]+=1
            if shown[r[0]]<3: shown[r[0]]+=1; print(s,r)
    print(mode,cnt,'of',N)
