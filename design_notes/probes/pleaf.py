import random, sys
from collections import Counter
import p01
from p01 import *
from entity_query_language.symbolic import Comparator
REG={}   # id(node) -> (leaf ast, parity)
_se=p01.se
def se2(c,x,par=0):
    t=c[0]
    if t=='and': return and_(se2(c[1],x,par),se2(c[2],x,par))
    if t=='or': return or_(se2(c[1],x,par),se2(c[2],x,par))
    if t=='not': return not_(se2(c[1],x,par+1))
    n=_se(c,x)
    if isinstance(n,Comparator): REG[id(n)]=(c,par%2,x)
    return n
p01.se=lambda c,x: se2(c,x,0)
stats=Counter()
orig=Comparator._evaluate__
def mon(self, sources=None, yield_when_false=False):
    for v in orig(self, sources, yield_when_false):
        ent=REG.get(id(self))
        if ent:
            c,par,x=ent
            if x._id_ in v:
                o=v[x._id_].value
                exp_true = p01.pe(c,o) != bool(par)
                if self._is_false_ == exp_true:
                    stats['MISMATCH']+=1
                    if stats['MISMATCH']<4: print('MISMATCH', c, par, o, self._is_false_, self.operation)
                else: stats['ok']+=1
            else: stats['novar']+=1
        yield v
Comparator._evaluate__=mon
bad=0
for s in range(int(sys.argv[1])):
    REG.clear()
    r=p01.run(s,int(sys.argv[2]),5)
    if r: bad+=1
print(stats, 'result failures', bad)
