import random, sys, itertools, operator
from dataclasses import dataclass, field
from collections import Counter
from entity_query_language import *
from entity_query_language.cache_data import enable_caching, disable_caching

@symbol
@dataclass(eq=False)
class P:
    a: int
    b: int
    def __repr__(self): return f"P{self.a}{self.b}"
@symbol
@dataclass(eq=False)
class Q:
    a: int
    p: P
    def __repr__(self): return f"Q{self.a}{self.p}"

OPS = {'==':operator.eq,'!=':operator.ne,'<':operator.lt,'<=':operator.le,'>':operator.gt,'>=':operator.ge}
# vars: list of ('P'|'Q'); value exprs: (vi, path) path in [('a',),('b',),('p','a'),('p','b'),()]
def gen_val(rng, kinds):
    if rng.random()<0.2: return ('lit', rng.randint(1,3))
    vi = rng.randrange(len(kinds))
    if kinds[vi]=='P': path = rng.choice([('a',),('b',)])
    else: path = rng.choice([('a',),('p','a'),('p','b')])
    return ('v', vi, path)
def gen_obj(rng, kinds):
    # object-valued expression
    vi = rng.randrange(len(kinds))
    return ('v', vi, () if kinds[vi]=='P' else ('p',))
def gen_leaf(rng, kinds):
    if rng.random()<0.25:
        l,r = gen_obj(rng,kinds), gen_obj(rng,kinds)
        return ('cmp', rng.choice(['==','!=']), l, r)
    l,r = gen_val(rng,kinds), gen_val(rng,kinds)
    if l[0]=='lit' and r[0]=='lit': l = gen_val(rng,kinds); 
    if l[0]=='lit' and r[0]=='lit': l=('v',0,('a',))
    return ('cmp', rng.choice(list(OPS)), l, r)
def gen(rng, kinds, depth, allow_not=True):
    if depth==0 or rng.random()<0.25: return gen_leaf(rng,kinds)
    k=rng.random()
    if k<0.45: return ('and', gen(rng,kinds,depth-1,allow_not), gen(rng,kinds,depth-1,allow_not))
    if k<0.85 or not allow_not: return ('or', gen(rng,kinds,depth-1,allow_not), gen(rng,kinds,depth-1,allow_not))
    return ('not', gen(rng,kinds,depth-1,allow_not))
def pv(v, asg):
    if v[0]=='lit': return v[1]
    o = asg[v[1]]
    for a in v[2]: o = getattr(o,a)
    return o
def pe(c, asg):
    t=c[0]
    if t=='cmp':
        l,r = pv(c[2],asg), pv(c[3],asg)
        if c[1]=='==' and not isinstance(l,int): return l is r
        if c[1]=='!=' and not isinstance(l,int): return l is not r
        return OPS[c[1]](l,r)
    if t=='and': return pe(c[1],asg) and pe(c[2],asg)
    if t=='or': return pe(c[1],asg) or pe(c[2],asg)
    if t=='not': return not pe(c[1],asg)
def sv(v, xs):
    if v[0]=='lit': return v[1]
    o = xs[v[1]]
    for a in v[2]: o = getattr(o,a)
    return o
def se(c, xs):
    t=c[0]
    if t=='cmp': return OPS[c[1]](sv(c[2],xs), sv(c[3],xs))
    if t=='and': return and_(se(c[1],xs),se(c[2],xs))
    if t=='or': return or_(se(c[1],xs),se(c[2],xs))
    if t=='not': return not_(se(c[1],xs))
def mentioned(c, acc=None):
    acc = set() if acc is None else acc
    if c[0]=='cmp':
        for v in c[2:]:
            if v[0]=='v': acc.add(v[1])
    else:
        for s in c[1:]: mentioned(s,acc)
    return acc

def run(seed, depth, nv, allow_not, sel_all=True, cache=True):
    rng = random.Random(seed)
    ps = [P(rng.randint(1,3), rng.randint(1,3)) for _ in range(rng.randint(2,4))]
    qs = [Q(rng.randint(1,3), rng.choice(ps)) for _ in range(rng.randint(2,4))]
    kinds = [rng.choice('PQ') for _ in range(nv)]
    doms = [ps if k=='P' else qs for k in kinds]
    c = gen(rng, kinds, depth, allow_not)
    if sel_all: sel = list(range(nv)); rng.shuffle(sel)
    else:
        sel = rng.sample(range(nv), rng.randint(1,nv))
    exp = Counter(tuple(id(asg[i]) for i in sel) for asg in itertools.product(*doms) if pe(c,asg))
    (enable_caching if cache else disable_caching)()
    try:
        with symbolic_mode():
            xs = [let(P if k=='P' else Q, d) for k,d in zip(kinds,doms)]
            q = an(set_of([xs[i] for i in sel], se(c,xs)))
        rows = list(q.evaluate())
        got = Counter(tuple(id(r[xs[i]]) for i in sel) for r in rows)
    except Exception as e:
        import traceback
        return ('EXC', repr(e)[:150], kinds, c, traceback.format_exc().splitlines()[-3:])
    finally:
        enable_caching()
    if set(got)!=set(exp):
        m = set(exp)-set(got); x = set(got)-set(exp)
        return ('SET:%s%s'%('M' if m else '', 'X' if x else ''), kinds, sel, c, len(exp), len(got), 'ment', sorted(mentioned(c)))
    if sel_all and len(sel)==nv and got!=exp:
        return ('COUNT', kinds, sel, c, sum(exp.values()), sum(got.values()), 'ment', sorted(mentioned(c)))
    return None

if __name__=='__main__':
    depth=int(sys.argv[1]); N=int(sys.argv[2]); nv=int(sys.argv[3]); allow_not = sys.argv[4]=='1'; sel_all=sys.argv[5]=='1'; cache = sys.argv[6]=='1'
    cnt=Counter(); shown=Counter()
    for seed in range(N):
        r = run(seed, depth, nv, allow_not, sel_all, cache)
        if r:
            cnt[r[0]]+=1
            if shown[r[0]]<5:
                shown[r[0]]+=1; print(seed, r)
    print(cnt,'of',N)
