import random, sys, itertools
from dataclasses import dataclass, field
from collections import Counter
from entity_query_language import *
from entity_query_language.entity import flatten, concatenate
@symbol
@dataclass(eq=False)
class E:
    n: int
    def __repr__(self): return f"E{self.n}"
@symbol
@dataclass(eq=False)
class Par:
    k: int
    items: list = field(default_factory=list)
    one: object = None
    def __repr__(self): return f"Par{self.k}"
def world(rng, falsy=False):
    es=[E(i+1) for i in range(5)]
    ps=[]
    for k in range(rng.randint(1,4)):
        items=[rng.choice(es) for _ in range(rng.randint(0 if falsy else 1,3))]
        ps.append(Par(k+1, items, rng.choice(es)))
    return es,ps
def run_flat(seed, variant, falsy=False):
    rng=random.Random(seed); es,ps=world(rng,falsy)
    thr=rng.randint(1,4)
    with symbolic_mode():
        p=let(Par,ps); e=flatten(p.items)
        if variant=='elem': q=an(entity(e)); exp=Counter(id(x) for pp in ps for x in pp.items); key=lambda r:id(r)
        elif variant=='pair': q=an(set_of([p,e])); exp=Counter((id(pp),id(x)) for pp in ps for x in pp.items); key=lambda r:(id(r[p]),id(r[e]))
        elif variant=='pair_cond': q=an(set_of([p,e], e.n>thr)); exp=Counter((id(pp),id(x)) for pp in ps for x in pp.items if x.n>thr); key=lambda r:(id(r[p]),id(r[e]))
        elif variant=='elem_cond': q=an(entity(e, e.n>thr, p.k>1)); exp=Counter(id(x) for pp in ps for x in pp.items if x.n>thr and pp.k>1); key=lambda r:id(r)
        elif variant=='scalar': 
            e=flatten(p.one); q=an(set_of([p,e])); exp=Counter((id(pp),id(pp.one)) for pp in ps); key=lambda r:(id(r[p]),id(r[e]))
        elif variant=='pair_rev': q=an(set_of([e,p])); exp=Counter((id(pp),id(x)) for pp in ps for x in pp.items); key=lambda r:(id(r[p]),id(r[e]))
    try: got=Counter(key(r) for r in q.evaluate())
    except Exception as ex: return ('EXC',type(ex).__name__,str(ex)[:100])
    if set(got)!=set(exp): return ('SET', [(pp.k,[x.n for x in pp.items]) for pp in ps], thr, len(exp),len(got))
    if got!=exp: return ('MULT', [(pp.k,[x.n for x in pp.items]) for pp in ps], thr, sum(exp.values()),sum(got.values()))
def run_cat(seed, variant, falsy=False):
    rng=random.Random(seed); es,ps=world(rng,falsy)
    with symbolic_mode():
        p=let(Par,ps); allv=concatenate(p.items)
        if variant=='one':
            q=an(entity(allv)); 
            try: got=list(q.evaluate())
            except Exception as ex: return ('EXC',type(ex).__name__,str(ex)[:100])
            exp=[[x for pp in ps for x in pp.items]]
            if len(got)!=1 or [id(x) for x in got[0]]!=[id(x) for x in exp[0]]: return ('ONE', len(got), [[x.n for x in g] for g in got][:2], [x.n for x in exp[0]])
            return None
        d=let(E,es)
        if variant=='in': q=an(entity(d, in_(d,allv))); exp=[x for x in es if any(x is y for pp in ps for y in pp.items)]
        elif variant=='notin': q=an(entity(d, not_(in_(d,allv)))); exp=[x for x in es if not any(x is y for pp in ps for y in pp.items)]
        elif variant=='contains': q=an(entity(d, contains(allv,d))); exp=[x for x in es if any(x is y for pp in ps for y in pp.items)]
    try: got=list(q.evaluate())
    except Exception as ex: return ('EXC',type(ex).__name__,str(ex)[:100])
    if [id(x) for x in got]!=[id(x) for x in exp]: return ('MEM', [x.n for x in got],[x.n for x in exp], [(pp.k,[x.n for x in pp.items]) for pp in ps])
if __name__=='__main__':
    N=int(sys.argv[1]); falsy=len(sys.argv)>2
    for v in ('elem','pair','pair_rev','pair_cond','elem_cond','scalar'):
        cnt=Counter(); ex=None
        for s in range(N):
            r=run_flat(s,v,falsy)
            if r: cnt[r[0]]+=1; ex=ex or (s,r)
        print('flatten',v,dict(cnt),ex)
    for v in ('one','in','notin','contains'):
        cnt=Counter(); ex=None
        for s in range(N):
            r=run_cat(s,v,falsy)
            if r: cnt[r[0]]+=1; ex=ex or (s,r)
        print('concat',v,dict(cnt),ex)
