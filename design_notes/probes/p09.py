import sys, itertools
from dataclasses import dataclass
from entity_query_language import *
from entity_query_language.entity import infer
from entity_query_language.symbolic import rule_mode, in_symbolic_mode
import contextlib

@symbol
@dataclass(eq=False)
class B:
    n: int
@symbol
@dataclass(eq=False)
class V:
    b: B
    k: int = 0

@predicate
def fbig(x, k): return x.n > k
@dataclass(eq=False)
class CBig(Predicate):
    x: object
    k: int
    def __call__(self): return self.x.n > self.k

bs=[B(1),B(2),B(3)]
def ctx(mode):
    if mode=='none': return contextlib.nullcontext()
    if mode=='query': return symbolic_mode()
    return rule_mode()
def describe(kind, quant, thr):
    # build query
    with symbolic_mode():
        x=let(B,bs)
        cond = {'plain': x.n>thr, 'fpred': fbig(x,thr), 'cpred': CBig(x,thr), 'hastype': and_(HasType(x,B), x.n>thr)}[kind]
        q = {'an':an,'the':the}[quant](entity(x,cond))
    return q
def ev(q, quant, mode):
    with ctx(mode):
        try:
            r=q.evaluate()
            if quant=='an': r=list(r)
            else: r=[r]
            return ('ok', [getattr(o,'n',repr(type(o))) for o in r])
        except Exception as e:
            return ('EXC', type(e).__name__, str(e)[:60])
for kind in ('plain','fpred','cpred','hastype'):
    for quant,thr in (('an',1),('the',2)):
        outs={}
        for mode in ('none','query','rule'):
            outs[mode]=ev(describe(kind,quant,thr),quant,mode)
        flag = '' if outs['none']==outs['query']==outs['rule'] else '  <<<< DIFF'
        print(kind,quant,outs,flag)
# infer
for quant in ('infer','an','the'):
    outs={}
    for mode in ('none','query','rule'):
        with rule_mode():
            x=let(B,bs)
            Q={'infer':infer,'an':an,'the':the}[quant]
            q=Q(entity(V(b=x,k=5), x.n>(1 if quant!='the' else 2)))
        with ctx(mode):
            try:
                r=q.evaluate()
                r=list(r) if quant!='the' else [r]
                outs[mode]=('ok',[(type(o).__name__, getattr(getattr(o,'b',None),'n',None), getattr(o,'k',None)) for o in r])
            except Exception as e: outs[mode]=('EXC',type(e).__name__,str(e)[:80])
    print('rule',quant,outs, '' if outs['none']==outs['query']==outs['rule'] else '  <<<< DIFF')
print(in_symbolic_mode())
