import sys, shutil, os
fixes = sys.argv[1:]
shutil.rmtree('rf', ignore_errors=True); os.makedirs('rf'); shutil.copytree('/repo/src','rf/src')
base='rf/src/entity_query_language/'
def sub(fn, old, new, count=1):
    s=open(base+fn).read(); assert s.count(old)==count, (fn, old[:40], s.count(old)); s=s.replace(old,new); open(base+fn,'w').write(s)
if 'F1' in fixes:
    sub('symbolic.py', "        operand._invert_ = True\n    return operand", "        operand._invert_ = not operand._invert_\n    return operand")
    s=open(base+'symbolic.py').read()
    a=s.index("        match self.operation:\n            case operator.lt:"); b=s.index("        self._node_.name = self._node_.name.replace(prev_operation.__name__")
    s=s[:a]+'''        match self.operation:
            case operator.lt:
                self.operation = operator.ge
            case operator.gt:
                self.operation = operator.le
            case operator.le:
                self.operation = operator.gt
            case operator.ge:
                self.operation = operator.lt
            case operator.eq:
                self.operation = operator.ne
            case operator.ne:
                self.operation = operator.eq
            case operator.contains:
                self.operation = not_contains
            case _ if self.operation is not_contains:
                self.operation = operator.contains
            case _:
                raise ValueError(f"Unsupported operation: {self.operation.__name__}")
'''+s[b:]
    s=s.replace("@dataclass(eq=False)\nclass Comparator(BinaryOperator):", "def not_contains(a, b):\n    return not operator.contains(a, b)\n\n\n@dataclass(eq=False)\nclass Comparator(BinaryOperator):")
    open(base+'symbolic.py','w').write(s)
if 'F2' in fixes and 'F5' not in fixes:
    sub('symbolic.py','''        with symbolic_mode(mode=None):
            results = self._evaluate__()
            assert not in_symbolic_mode()
            yield from map(self._process_result_, results)
        self._reset_cache_()
''','''        self._reset_cache_()
        try:
            with symbolic_mode(mode=None):
                results = self._evaluate__()
                assert not in_symbolic_mode()
                yield from map(self._process_result_, results)
        finally:
            self._reset_cache_()
''')
if 'F5' in fixes:
    sub('symbolic.py','''        with symbolic_mode(mode=None):
            results = self._evaluate__()
            assert not in_symbolic_mode()
            yield from map(self._process_result_, results)
        self._reset_cache_()
''','''        self._reset_cache_()
        results = iter(self._evaluate__())
        try:
            while True:
                # Symbolic mode is switched off only while a result is being computed, the mode of the caller is
                # restored before handing the result over.
                with symbolic_mode(mode=None):
                    try:
                        result = self._process_result_(next(results))
                    except StopIteration:
                        break
                yield result
        finally:
            with symbolic_mode(mode=None):
                results.close()
            self._reset_cache_()
''')
if 'F3' in fixes:
    sub('cache_data.py','''        if not assignment:
            self.all_seen = True
            self.seen.append(assignment)
            return False
''','''        if not assignment:
            return False
''')
print('built rf with', fixes)
if 'F4' in fixes:
    sub('symbolic.py','''        result = self._evaluate_()
        result = self._process_result_(result)
        self._reset_cache_()
        return result
''','''        self._reset_cache_()
        try:
            result = self._evaluate_()
            return self._process_result_(result)
        finally:
            self._reset_cache_()
''')
    sub('symbolic.py','''        if result is None:
            self._is_false_ = True
        if self._is_false_:''','''        self._is_false_ = result is None
        if self._is_false_:''')
    sub('symbolic.py','''        else:
            result[self._id_] = result[self._var_._id_]
        return result''','''        elif self._var_:
            result[self._id_] = result[self._var_._id_]
        return result''')
print('F4 done' if 'F4' in fixes else '')
if 'F6' in fixes:
    sub('symbolic.py','''            # Evaluate the condition under this particular universal value
            for condition_val in self.condition._evaluate__(ctx):''','''            # Evaluate the condition under this particular universal value
            self.condition._reset_cache_()
            for condition_val in self.condition._evaluate__(ctx):''')
if 'F8' in fixes:
    sub('rule.py','''    new_conditions_root._parent_ = prev_parent
    return new_conditions_root.right

''','''    new_conditions_root._parent_ = prev_parent
    if isinstance(prev_parent, BinaryOperator):
        if prev_parent.left is current_node:
            prev_parent.left = new_conditions_root
        elif prev_parent.right is current_node:
            prev_parent.right = new_conditions_root
    return new_conditions_root.right

''')
if 'F7' in fixes:
    sub('predicate.py','''            arg_name = init_args[i+1] # to skip `self`''','''            arg_name = init_args[i + (0 if domain else 1)]  # to skip `self`, the domain is not an init argument''')
if 'F9' in fixes:
    sub('symbolic.py','''            if selected_vars:
                var_val_gen = {var: var._evaluate__(copy(v))
                               for var in selected_vars}
                original_v = v
                for sol in generate_combinations(var_val_gen):
                    v = copy(original_v)
                    var_val = {var._id_: sol[var][var._id_] for var in selected_vars}
                    v.update(var_val)
                    yield v
            else:
                yield v
''','''            if selected_vars:
                yield from self._bind_selected_variables_(list(selected_vars), v)
            else:
                yield v

    def _bind_selected_variables_(self, selected_vars: List[CanBehaveLikeAVariable],
                                  bindings: Dict[int, HashedValue]) -> Iterable[Dict[int, HashedValue]]:
        """
        Bind the selected variables one after the other, such that a selected expression that shares variables with
        an earlier selected expression is evaluated under the bindings of that earlier expression.
        """
        if not selected_vars:
            yield bindings
            return
        var, remaining_vars = selected_vars[0], selected_vars[1:]
        for var_val in var._evaluate__(copy(bindings)):
            new_bindings = copy(var_val)
            new_bindings.update(bindings)
            yield from self._bind_selected_variables_(remaining_vars, new_bindings)
''')
if 'F10' in fixes:
    sub('symbolic.py','''        kwargs_generators = {k: v._evaluate__(sources) for k, v in self._child_vars_.items()}
        yield from generate_combinations(kwargs_generators)
''','''        yield from self._bind_child_vars_values_(list(self._child_vars_.items()), sources or {}, {})

    def _bind_child_vars_values_(self, child_vars: List[Tuple[str, SymbolicExpression]],
                                 bindings: Dict[int, HashedValue], kwargs: Dict[str, Dict[int, HashedValue]]):
        """
        Bind the child variables one after the other, such that child variables that share a variable are evaluated
        under the same value of that variable.
        """
        if not child_vars:
            yield kwargs
            return
        (name, child_var), remaining = child_vars[0], child_vars[1:]
        for child_val in child_var._evaluate__(copy(bindings)):
            new_bindings = copy(child_val)
            new_bindings.update(bindings)
            yield from self._bind_child_vars_values_(remaining, new_bindings, {**kwargs, name: child_val})
''')

if 'F5' in fixes:
    sub('symbolic.py','''        self._reset_cache_()
        try:
            result = self._evaluate_()
            return self._process_result_(result)
        finally:
            self._reset_cache_()
''','''        self._reset_cache_()
        try:
            with symbolic_mode(mode=None):
                result = self._evaluate_()
            return self._process_result_(result)
        finally:
            self._reset_cache_()
''')
if 'F11' in fixes:
    s=open(base+'symbolic.py').read()
    a=s.index("    @property\n    @lru_cache(maxsize=None)\n    def condition_unique_variable_ids(self)")
    b=s.index("@dataclass(eq=False)\nclass Comparator(BinaryOperator):")
    if "def not_contains" in s[a:b]: b=s.index("def not_contains(a, b):")
    new='''    @property
    @lru_cache(maxsize=None)
    def condition_unique_variable_ids(self) -> List[int]:
        return [v.id_ for v in self.condition._unique_variables_.difference(self.left._unique_variables_)
                if not isinstance(v.value, Literal)]

    @staticmethod
    def _unify_(first: Dict[int, HashedValue], second: Dict[int, HashedValue]) -> Optional[Dict[int, HashedValue]]:
        """
        Merge two partial bindings, a variable that is missing from a binding is unconstrained by it.

        :return: The merged binding or None if the bindings disagree on a shared variable.
        """
        for k, v in first.items():
            if k in second and second[k] != v:
                return None
        return {**first, **second}

    def _evaluate__(self, sources: Optional[Dict[int, HashedValue]] = None,
                    yield_when_false: bool = False) -> Iterable[Dict[int, HashedValue]]:
        sources = sources or {}

        # Always reset per evaluation
        self.solution_set = []

        for var_val_index, var_val in enumerate(self.variable._evaluate__(sources)):
            ctx = {**sources, **var_val}
            current = []

            # Evaluate the condition under this particular universal value, bindings seen for a previous universal
            # value are not duplicates.
            self.condition._reset_cache_()
            for condition_val in self.condition._evaluate__(ctx):
                if self.condition._is_false_:
                    continue
                # Keep only the non-universal variables from the condition bindings
                filtered = {k: v for k, v in condition_val.items() if k in self.condition_unique_variable_ids}
                if filtered not in current:
                    current.append(filtered)

            if var_val_index == 0:
                # seed with all satisfying non-universal bindings
                self.solution_set = current
            else:
                # Intersect with previously accumulated satisfying bindings
                intersection = []
                for previous in self.solution_set:
                    for new in current:
                        unified = self._unify_(previous, new)
                        if unified is not None and unified not in intersection:
                            intersection.append(unified)
                self.solution_set = intersection

            # Early exit if the intersection is empty
            if not self.solution_set:
                break

        # Yield the remaining bindings (non-universal) merged with the incoming sources
        for sol in self.solution_set or []:
            out = copy(sol)
            out.update(sources)
            yield out


'''
    s=s[:a]+new+s[b:]
    open(base+'symbolic.py','w').write(s)
if 'F12' in fixes:
    sub('symbolic.py','''        child_val = self._child_._evaluate__(sources, yield_when_false=self._yield_when_false_)
        for child_v in child_val:
            for v in self._apply_mapping_(child_v[self._child_._id_]):
                values = copy(child_v)
                if (not self._invert_ and v.value) or (self._invert_ and not v.value):
                    self._is_false_ = False
                else:
                    self._is_false_ = True
''','''        used_as_condition = self._is_used_as_condition_
        child_val = self._child_._evaluate__(sources, yield_when_false=self._yield_when_false_)
        for child_v in child_val:
            for v in self._apply_mapping_(child_v[self._child_._id_]):
                values = copy(child_v)
                if not used_as_condition:
                    # The value itself is what is needed (operand, selected output, argument), it is not a truth value.
                    self._is_false_ = False
                elif (not self._invert_ and v.value) or (self._invert_ and not v.value):
                    self._is_false_ = False
                else:
                    self._is_false_ = True
''')
    sub('symbolic.py','''    @abstractmethod
    def _apply_mapping_(self, value: HashedValue) -> Iterable[HashedValue]:''','''    @property
    def _is_used_as_condition_(self) -> bool:
        """
        Whether the mapped value stands in condition position (is interpreted as a boolean), or is used as a value.
        """
        parent = self._parent_
        if isinstance(parent, ForAll):
            return parent.condition is self
        return isinstance(parent, (LogicalOperator, QueryObjectDescriptor, ResultQuantifier))

    @abstractmethod
    def _apply_mapping_(self, value: HashedValue) -> Iterable[HashedValue]:''')
if 'F13' in fixes:
    sub('symbolic.py','''        if self._parent_:
            required_vars.update(self._parent_._required_variables_from_child_(self, when_true))
        return required_vars


@dataclass(eq=False)
class ForAll(BinaryOperator):''','''        if self._parent_:
            # A true left operand does not decide the truth of this operator, so what the parent requires in
            # either case is required from the left operand.
            when_i_am_true = None if child is self.left else when_true
            required_vars.update(self._parent_._required_variables_from_child_(self, when_i_am_true))
        return required_vars


@dataclass(eq=False)
class ForAll(BinaryOperator):''')
