import itertools, sys, random
from dataclasses import dataclass
from collections import Counter
from entity_query_language import *
from entity_query_language.entity import infer
from entity_query_language.symbolic import rule_mode
from entity_query_language.rule import refinement, alternative, next_rule
@symbol
@dataclass(eq=False)
class N:
    a: int
    b: int
    c: int
@symbol
@dataclass(eq=False)
class Out:
    tag: str = ''
    src: object = None
# tree spec: node = (cond_fn_name, tag, refinements[list of node], alternatives[list of node])
# conditions are functions of N: use attribute thresholds: ('a',k) means x.a > k
def cond_py(c, o): return getattr(o,c[0]) > c[1]
def cond_sym(c, x): return getattr(x,c[0]) > c[1]
def ref_eval(node, o):
    """returns tag or None: RDR semantics: node fires if cond true; then most specific refinement that fires replaces; """
    cond, tag, refs, alts = node
    if cond_py(cond,o):
        # refinements: first refinement (in order with their alternatives chain) that fires overrides
        for r in refs:
            t = ref_eval(r, o)
            if t is not None: return t
        return tag
    for a in alts[:1]:
        return ref_eval(a,o)
    return None
def build(node, x, out, depth=0):
    cond, tag, refs, alts = node
    Add(out, Out(tag=tag, src=x))
    for r in refs:
        with refinement(cond_sym(r[0],x)):
            build(r, x, out)
    for a in alts[:1]:
        with alternative(cond_sym(a[0],x)):
            build(a, x, out)
def run(tree, data):
    with symbolic_mode():
        x=let(N,data)
        out=let(Out)
        q=infer(entity(out, cond_sym(tree[0],x)))
    with rule_mode(q):
        build(tree,x,out)
    res=list(q.evaluate())
    got=Counter((o.tag, id(o.src)) for o in res)
    exp=Counter()
    for o in data:
        t=ref_eval(tree,o)
        if t is not None: exp[(t,id(o))]+=1
    return got, exp
data=[N(a,b,c) for a in (1,3) for b in (1,3) for c in (1,3)]
A=("a",2); B=("b",2); C=("c",2); T=("a",0)
shapes={
 'base': (T,'base',[],[]),
 'base+ref': (T,'base',[(A,'rA',[],[])],[]),
 'base+alt': (A,'base',[],[(B,'altB',[],[])]),
 'base+ref+ref_alt': (T,'base',[(A,'rA',[],[(B,'rA_altB',[],[])])],[]),
 'ref_in_ref': (T,'base',[(A,'rA',[(B,'rAB',[],[])],[])],[]),
 'ref_in_alt': (A,'base',[],[(B,'altB',[(C,'altB_rC',[],[])],[])]),
 'alt_chain': (A,'base',[],[(B,'altB',[],[(C,'altC',[],[])])]),
 'alt_in_ref_in_ref': (T,'base',[(A,'rA',[(B,'rAB',[],[(C,'rAB_altC',[],[])])],[])],[]),
 'two_refs': (T,'base',[(A,'rA',[],[]),(B,'rB',[],[])],[]),
 'ref+alt_of_base': (A,'base',[(B,'rB',[],[])],[(C,'altC',[],[])]),
}
for name,tree in shapes.items():
    try:
        got,exp=run(tree,data)
        print(name, 'OK' if got==exp else 'DIFF missing=%s extra=%s'%(sorted((t) for t,_ in (exp-got).elements()), sorted(t for t,_ in (got-exp).elements())))
    except Exception as e:
        import traceback
        print(name,'EXC',type(e).__name__,str(e)[:100])
