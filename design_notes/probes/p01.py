import random, sys, itertools, operator, traceback
from dataclasses import dataclass, field
from entity_query_language import *
from entity_query_language.symbolic import Variable
from entity_query_language.cache_data import enable_caching, disable_caching

@symbol
@dataclass(eq=False)
class Item:
    a: int
    b: int
    s: str
    t: tuple = ()
    d: dict = field(default_factory=dict)
    def big(self, k=2): return self.a > k
    def inc(self): return self.a + 1

def mk(rng, n, falsy=False):
    lo = 0 if falsy else 1
    return [Item(rng.randint(lo,3), rng.randint(lo,3), rng.choice((["",] if falsy else [])+["x","xy","y","yz"]),
                 tuple(rng.sample([0,1,2,3] if falsy else [1,2,3,4], rng.randint(0 if falsy else 1,3))),
                 {"k": rng.randint(lo,3)}) for _ in range(n)]

# cond AST: ('cmp', op, lhs, rhs) ; lhs/rhs: ('attr','a'), ('lit',v), ('idx',), ('call','inc')
# ('in', item, container), ('call','big',k), ('sw', prefix), ('and',l,r), ('or',l,r), ('not',c)
OPS = {'==':operator.eq,'!=':operator.ne,'<':operator.lt,'<=':operator.le,'>':operator.gt,'>=':operator.ge}
def gen_val(rng):
    k = rng.random()
    if k<0.35: return ('attr', rng.choice(['a','b']))
    if k<0.5: return ('idx','k')
    if k<0.6: return ('call','inc')
    return ('lit', rng.randint(0,4))
def gen_leaf(rng):
    k = rng.random()
    if k<0.55:
        l = gen_val(rng); r = gen_val(rng)
        if l[0]=='lit' and r[0]=='lit': l=('attr','a')
        return ('cmp', rng.choice(list(OPS)), l, r)
    if k<0.7: return ('in', gen_val(rng) if rng.random()<.7 else ('lit',rng.randint(0,4)), ('attr','t'))
    if k<0.8: return ('instr', rng.choice(['x','y','z']))
    if k<0.9: return ('big', rng.randint(0,3))
    return ('sw', rng.choice(['x','y','']))
def gen(rng, depth):
    if depth==0 or rng.random()<0.25: return gen_leaf(rng)
    k = rng.random()
    if k<0.4: return ('and', gen(rng,depth-1), gen(rng,depth-1))
    if k<0.8: return ('or', gen(rng,depth-1), gen(rng,depth-1))
    return ('not', gen(rng,depth-1))

def pv(v,o):
    if v[0]=='attr': return getattr(o,v[1])
    if v[0]=='idx': return o.d[v[1]]
    if v[0]=='call': return o.inc()
    return v[1]
def pe(c,o):
    t=c[0]
    if t=='cmp': return OPS[c[1]](pv(c[2],o),pv(c[3],o))
    if t=='in': return pv(c[1],o) in o.t
    if t=='instr': return c[1] in o.s
    if t=='big': return o.big(c[1])
    if t=='sw': return o.s.startswith(c[1])
    if t=='and': return pe(c[1],o) and pe(c[2],o)
    if t=='or': return pe(c[1],o) or pe(c[2],o)
    if t=='not': return not pe(c[1],o)
def sv(v,x):
    if v[0]=='attr': return getattr(x,v[1])
    if v[0]=='idx': return x.d[v[1]]
    if v[0]=='call': return x.inc()
    return v[1]
def se(c,x):
    t=c[0]
    if t=='cmp': return OPS[c[1]](sv(c[2],x),sv(c[3],x))
    if t=='in': return in_(sv(c[1],x), x.t)
    if t=='instr': return contains(x.s, c[1])
    if t=='big': return x.big(c[1])
    if t=='sw': return x.s.startswith(c[1])
    if t=='and': return and_(se(c[1],x),se(c[2],x))
    if t=='or': return or_(se(c[1],x),se(c[2],x))
    if t=='not': return not_(se(c[1],x))

def run(seed, depth, n, falsy=False):
    rng = random.Random(seed)
    dom = mk(rng, n, falsy)
    c = gen(rng, depth)
    exp = [o for o in dom if pe(c,o)]
    try:
        with symbolic_mode():
            x = let(Item, dom)
            q = an(entity(x, se(c,x)))
        got = list(q.evaluate())
    except Exception as e:
        return ('EXC', repr(e)[:200], c)
    if [id(o) for o in got] != [id(o) for o in exp]:
        kind = 'ORDER' if sorted(map(id,got))==sorted(map(id,exp)) else ('DUP' if set(map(id,got))==set(map(id,exp)) else ('MISSING' if set(map(id,got))<set(map(id,exp)) else 'EXTRA/MIXED'))
        return (kind, c, [dom.index(o) for o in got], [dom.index(o) for o in exp])
    return None

if __name__=='__main__':
    depth=int(sys.argv[1]); N=int(sys.argv[2]); falsy = len(sys.argv)>3
    from collections import Counter
    cnt=Counter(); shown=Counter()
    for seed in range(N):
        r = run(seed, depth, 5, falsy)
        if r:
            cnt[r[0]]+=1
            if shown[r[0]]<4:
                shown[r[0]]+=1; print(seed, r)
    print(cnt, 'of', N)
