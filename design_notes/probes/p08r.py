import random, sys, gc
from dataclasses import dataclass
from collections import Counter
from entity_query_language import *
from entity_query_language.symbolic import _symbolic_mode, rule_mode, SymbolicExpression, in_symbolic_mode
from entity_query_language.enums import EQLMode
@symbol
@dataclass(eq=False)
class B:
    n: int
@predicate
def pos(x): return x.n>0
bs=[B(1),B(2),B(3),B(4)]
class Boom(Exception): pass
def mkq():
    with symbolic_mode():
        x=let(B,bs); return an(entity(x, x.n>0, pos(x)))
def run(seed, nsteps=14):
    rng=random.Random(seed)
    stack=[]   # reference: list of (mode, cm, kind)
    its=[]
    hist=[]
    def ref_mode(): return stack[-1][0] if stack else None
    def ref_depth(): return sum(1 for s in stack if s[2]=='q')
    def observe(tag):
        m=_symbolic_mode.get()
        if m!=ref_mode(): return ('MODE',tag,m,ref_mode(),hist)
        d=len(SymbolicExpression._symbolic_expression_stack_)
        if d!=ref_depth(): return ('STACK',tag,d,ref_depth(),hist)
        o=B(9) if True else None
        if (ref_mode() is None) != (type(o) is B): return ('CTOR',tag,type(o).__name__,ref_mode(),hist)
        p=pos(bs[0])
        if (ref_mode() is None) != (p is True): return ('PRED',tag,type(p).__name__,hist)
        with symbolic_mode(): v=let(B,bs)
        try:
            e=(v.n==1); ok=True
        except AttributeError: ok=False
        if ok != (ref_mode() is not None): return ('OPS',tag,ok,ref_mode(),hist)
    try:
        for step in range(nsteps):
            ops=['enter_q','enter_r','enter_wq','mkit']
            if stack: ops+=['leave','leave','raise_leave']
            if its: ops+=['next','next','close','drop','exhaust']
            op=rng.choice(ops); hist.append(op)
            if op=='enter_q': cm=symbolic_mode(); cm.__enter__(); stack.append((EQLMode.Query,cm,'m'))
            elif op=='enter_r': cm=rule_mode(); cm.__enter__(); stack.append((EQLMode.Rule,cm,'m'))
            elif op=='enter_wq':
                q=mkq(); cm=rule_mode(q); cm.__enter__(); stack.append((EQLMode.Rule,cm,'q'))
            elif op=='leave': m,cm,k=stack.pop(); cm.__exit__(None,None,None)
            elif op=='raise_leave':
                m,cm,k=stack.pop()
                try: cm.__exit__(Boom,Boom(),None)
                except Boom: pass
            elif op=='mkit': its.append(mkq().evaluate())
            elif op=='next':
                it=rng.choice(its)
                try:
                    o=next(it)
                    if type(o) is not B: return ('RESULT',type(o).__name__,hist)
                except StopIteration: its.remove(it)
            elif op=='close': it=its.pop(rng.randrange(len(its))); it.close()
            elif op=='drop': its.pop(rng.randrange(len(its))); gc.collect()
            elif op=='exhaust':
                it=its.pop(rng.randrange(len(its)))
                for o in it:
                    if type(o) is not B: return ('RESULT',type(o).__name__,hist)
            r=observe(step)
            if r: return r
    finally:
        while stack:
            m,cm,k=stack.pop(); cm.__exit__(None,None,None)
        its.clear(); gc.collect()
    if _symbolic_mode.get() is not None or SymbolicExpression._symbolic_expression_stack_: return ('END',_symbolic_mode.get(),hist)
if __name__=='__main__':
    N=int(sys.argv[1]); cnt=Counter(); ex=[]
    for s in range(N):
        r=run(s)
        if r:
            cnt[r[0]]+=1
            if len(ex)<3: ex.append((s,r))
            from entity_query_language.symbolic import _set_symbolic_mode
            _set_symbolic_mode(None); SymbolicExpression._symbolic_expression_stack_.clear()
    print(dict(cnt),'of',N); [print('  ',e) for e in ex]
