import random, sys, itertools
from collections import Counter
import p02
from p02 import *
from entity_query_language import the, MultipleSolutionFound, NoSolutionFound, entity

def run(seed, nv, depth, single):
    rng=random.Random(seed)
    ps=[P(rng.randint(1,3),rng.randint(1,3)) for _ in range(rng.randint(1,3))]
    qs=[Q(rng.randint(1,3),rng.choice(ps)) for _ in range(rng.randint(1,3))]
    kinds=[rng.choice('PQ') for _ in range(nv)]
    doms=[ps if k=='P' else qs for k in kinds]
    c=gen(rng,kinds,depth,True)
    sols=[asg for asg in itertools.product(*doms) if pe(c,asg)]
    n=len(sols)
    def mk():
        with symbolic_mode():
            xs=[let(P if k=='P' else Q,d) for k,d in zip(kinds,doms)]
            if single: d=entity(xs[0], se(c,xs))
            else: d=set_of(xs, se(c,xs))
            return the(d), xs
    res=[]
    for inside in (False, True):
        q,xs=mk()
        for rep in range(2):
            try:
                if inside:
                    with symbolic_mode(): v=q.evaluate()
                else: v=q.evaluate()
                out=('val', id(v) if single else tuple(id(v[x]) for x in xs))
            except MultipleSolutionFound: out=('multi',)
            except NoSolutionFound: out=('none',)
            except Exception as e: out=('EXC',type(e).__name__, str(e)[:80])
            res.append(out)
    exp = ('none',) if n==0 else ('multi',) if n>1 else ('val', id(sols[0][0]) if single else tuple(map(id,sols[0])))
    bad=[(i,r) for i,r in enumerate(res) if r!=exp]
    if bad: return (n, exp[0], bad, c)
if __name__=='__main__':
    nv=int(sys.argv[1]); depth=int(sys.argv[2]); N=int(sys.argv[3]); single=sys.argv[4]=='1'
    cnt=Counter(); ncls=Counter(); shown=Counter()
    for s in range(N):
        r=run(s,nv,depth,single)
        if r:
            key=(min(r[0],2), tuple(sorted(set((i,b[0]) for i,b in r[2]))))
            cnt[key]+=1
            if shown[key]<2: shown[key]+=1; print(s,r)
    print(cnt)
