import sys, p04
from entity_query_language.cache_data import disable_caching
disable_caching()
from collections import Counter
mode=sys.argv[1]; N=int(sys.argv[2])
cnt=Counter()
for s in range(N):
    r=p04.run(s,mode)
    if r: cnt[r[0]]+=1
print('nocache',mode,cnt,'of',N)
