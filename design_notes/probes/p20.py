import random, sys, itertools
from collections import Counter
from entity_query_language.cache_data import IndexedCache
from entity_query_language.hashed_data import HashedValue

def run(seed, nkeys=3, alpha=2, nops=6, use_hv=True, verbose=False):
    rng = random.Random(seed)
    keys = rng.sample(range(1,20), nkeys)
    vals = {k:[HashedValue(('v',k,i)) if use_hv else ('v',k,i) for i in range(alpha)] for k in keys}
    c = IndexedCache(keys)
    model = []  # list of (binding dict, output)
    log=[]
    for step in range(nops):
        # insert
        ks = [k for k in keys if rng.random()<0.7]
        if not ks: ks=[rng.choice(keys)]
        b = {k: rng.choice(vals[k]) for k in ks}
        out = ('out', step)
        c.insert(dict(b), out)
        # overwrite semantic: same binding replaces
        model = [(mb,mo) for mb,mo in model if mb!=b] + [(b,out)]
        log.append(('ins',b,out))
        # lookups
        for _ in range(3):
            lk = [k for k in keys if rng.random()<0.6]
            l = {k: rng.choice(vals[k]) for k in lk}
            if rng.random()<0.3: l[99]=HashedValue('extra')  # extra non-key var
            # check
            lkk = {k:v for k,v in l.items() if k in keys}
            if lkk:
                exp_chk = any(all(k in lkk and lkk[k]==v for k,v in mb.items()) for mb,_ in model)
                got_chk = c.check(dict(l))
                if exp_chk!=got_chk: return ('CHECK', log, l, exp_chk, got_chk)
            exp = Counter()
            for mb,mo in model:
                if all(l[k]==v for k,v in mb.items() if k in l):
                    merged = dict(l); merged.update(mb)
                    exp[(frozenset((k,id(v)) for k,v in merged.items()), mo)] += 1
            try:
                got = Counter((frozenset((k,id(v)) for k,v in r.items()), o) for r,o in c.retrieve(dict(l)))
            except Exception as e:
                return ('EXC', repr(e), log, l)
            if got!=exp:
                m = exp-got; x = got-exp
                kind = 'RETR:' + ('M' if m else '') + ('X' if x else '')
                return (kind, log, l, sorted(map(str,exp.items())), sorted(map(str,got.items())))
    c.clear()
    if list(c.retrieve({})) or (c.check({keys[0]: vals[keys[0]][0]})): return ('CLEAR',)
    return None
if __name__=='__main__':
    N=int(sys.argv[1]); nkeys=int(sys.argv[2]); nops=int(sys.argv[3])
    cnt=Counter(); shown=Counter()
    for s in range(N):
        r = run(s,nkeys,2,nops)
        if r:
            cnt[r[0]]+=1
            if shown[r[0]]<3: shown[r[0]]+=1; print(s, r)
    print(cnt,'of',N)
