import random, sys, itertools, operator
from collections import Counter
import p02
from p02 import *
MIRROR={'<':'>','>':'<','<=':'>=','>=':'<=','==':'==','!=':'!='}
def rewrite(c, rng):
    t=c[0]
    if t=='cmp':
        if rng.random()<0.5: return ('cmp', MIRROR[c[1]], c[3], c[2])
        return c
    if t=='not': return ('not', rewrite(c[1],rng))
    l,r=rewrite(c[1],rng),rewrite(c[2],rng)
    if rng.random()<0.5: l,r=r,l
    # re-associate: (a op b) op c -> a op (b op c)
    if l[0]==t and rng.random()<0.5: return (t, l[1], (t, l[2], r))
    return (t,l,r)
def rows(c, kinds, doms, order, sel, perm_dom, rng):
    with symbolic_mode():
        xs=[None]*len(kinds)
        for i in order:
            d=list(doms[i])
            if perm_dom: rng.shuffle(d)
            xs[i]=let(P if kinds[i]=='P' else Q, d)
        q=an(set_of([xs[i] for i in sel], se(c,xs)))
    return Counter(frozenset((i,id(r[xs[i]])) for i in sel) for r in q.evaluate())
def run(seed, depth, nv):
    rng=random.Random(seed)
    ps=[P(rng.randint(1,3),rng.randint(1,3)) for _ in range(rng.randint(2,4))]
    qs=[Q(rng.randint(1,3),rng.choice(ps)) for _ in range(rng.randint(2,4))]
    kinds=[rng.choice('PQ') for _ in range(nv)]
    doms=[ps if k=='P' else qs for k in kinds]
    c=gen(rng,kinds,depth,True)
    base=rows(c,kinds,doms,list(range(nv)),list(range(nv)),False,rng)
    for k in range(3):
        c2=rewrite(c,rng); order=list(range(nv)); rng.shuffle(order); sel=list(range(nv)); rng.shuffle(sel)
        try: alt=rows(c2,kinds,doms,order,sel,True,rng)
        except Exception as ex: return ('EXC',type(ex).__name__,str(ex)[:80])
        if set(alt)!=set(base): return ('SET',c,c2,len(base),len(alt))
        if alt!=base: return ('COUNT',c,c2,sum(base.values()),sum(alt.values()))
if __name__=='__main__':
    depth=int(sys.argv[1]); nv=int(sys.argv[2]); N=int(sys.argv[3])
    cnt=Counter(); ex=[]
    for s in range(N):
        r=run(s,depth,nv)
        if r:
            cnt[r[0]]+=1
            if len(ex)<3: ex.append((s,r))
    print(dict(cnt),'of',N); [print('  ',e) for e in ex]
